package main

import (
	"bytes"
	"context"
	"fmt"
	"os"
	"os/exec"
	"path/filepath"
	"strings"
	"sync"
	"syscall"
	"time"
)

type Solver struct {
	Name string
	Args func(timeoutMs int, file string) []string
	Bin  string
}

var solvers = []Solver{
	{Name: "z3-4.8.12", Bin: "z3", Args: func(t int, f string) []string { return []string{"-smt2", fmt.Sprintf("-t:%d", t), f} }},
	{Name: "z3-5.1.0", Bin: "z3-new", Args: func(t int, f string) []string { return []string{"-smt2", fmt.Sprintf("-t:%d", t), f} }},
	{Name: "cvc5-1.0.3", Bin: "cvc5", Args: func(t int, f string) []string {
		return []string{"--lang=smt2", fmt.Sprintf("--tlimit-per=%d", t), "--incremental", f}
	}},
}

type SolveStats struct {
	mu       sync.Mutex
	Wins     map[string]int
	Seconds  map[string]float64
	Queries  int
	Fallback int
}

func NewSolveStats() *SolveStats {
	return &SolveStats{Wins: map[string]int{}, Seconds: map[string]float64{}}
}

func goalTerm(o *Obligation, withExcl bool) string {
	g := o.Goal
	guard := o.Guard
	if withExcl && o.Excl != "" {
		guard = and(guard, not(o.Excl))
	}
	if o.Cover {
		// satisfiable iff reachable: assert the goal itself
		return and(guard, g)
	}
	return and(guard, not(g))
}

const header = "(set-option :produce-models true)\n(set-logic ALL)\n"

func runSolver(s Solver, file string, timeoutMs int) (string, float64) {
	return runSolverCtx(context.Background(), s, file, timeoutMs, 0)
}

// runSolverCtx runs one solver in its own process group under a context: a solver that ignores its own
// time limit (cvc5 does on some quantified goals) must not outlive this process when it is killed.
// hardMs > 0 bounds the whole run (batch files hold many queries, each with its own limit).
func runSolverCtx(parent context.Context, s Solver, file string, timeoutMs, hardMs int) (string, float64) {
	if hardMs <= 0 {
		hardMs = timeoutMs*3 + 5000
	}
	ctx, cancel := context.WithTimeout(parent, time.Duration(hardMs)*time.Millisecond)
	defer cancel()
	start := time.Now()
	cmd := exec.CommandContext(ctx, s.Bin, s.Args(timeoutMs, file)...)
	// own process group, killed as a group on cancel; killed by the kernel if this process dies
	cmd.SysProcAttr = &syscall.SysProcAttr{Setpgid: true, Pdeathsig: syscall.SIGKILL}
	cmd.Cancel = func() error { return syscall.Kill(-cmd.Process.Pid, syscall.SIGKILL) }
	cmd.WaitDelay = 2 * time.Second
	var out bytes.Buffer
	cmd.Stdout = &out
	cmd.Stderr = &out
	_ = cmd.Run()
	return out.String(), time.Since(start).Seconds()
}

func parseAnswers(out string) []string {
	var res []string
	for _, l := range strings.Split(out, "\n") {
		l = strings.TrimSpace(l)
		switch {
		case l == "sat" || l == "unsat" || l == "unknown":
			res = append(res, l)
		case l == "timeout":
			res = append(res, "unknown")
		case strings.HasPrefix(l, "(error"):
			res = append(res, "error: "+l)
		}
	}
	return res
}

// Discharge proves the obligations of one function result.
func Discharge(fr *FuncResult, dir string, batchMs, singleMs int, stats *SolveStats, keepFiles bool) {
	// obligations decided without a solver keep their preset result
	all := fr.Obls
	var dyn []*Obligation
	for _, o := range all {
		if !o.Static {
			dyn = append(dyn, o)
		}
	}
	fr.Obls = dyn
	defer func() { fr.Obls = all }()
	if len(fr.Obls) == 0 {
		return
	}
	base := filepath.Join(dir, sanitize(fr.Func))
	// 1. batch, z3 4.8.12, push/pop
	var b strings.Builder
	b.WriteString(header)
	b.WriteString(fr.Prelude)
	b.WriteString(fr.Body)
	for _, o := range fr.Obls {
		if o.Cover {
			// satisfiable queries with quantified axioms rarely come back as sat: do not wait for them
			b.WriteString("(set-option :timeout 300)\n")
		}
		// obligations with a recorded known finding are first tried under the witness exclusion
		fmt.Fprintf(&b, "(push 1)\n(assert %s)\n(check-sat)\n(pop 1)\n", goalTerm(o, o.Excl != ""))
	}
	file := base + ".batch.smt2"
	os.WriteFile(file, []byte(b.String()), 0o644)
	hard := batchMs*len(fr.Obls) + 10000
	out, secs := runSolverCtx(context.Background(), solvers[0], file, batchMs, hard)
	ans := parseAnswers(out)
	stats.mu.Lock()
	stats.Seconds[solvers[0].Name] += secs
	stats.Queries += len(fr.Obls)
	stats.mu.Unlock()
	// many undecided answers from the first solver: one more batch on the second before going query by query
	if len(ans) == len(fr.Obls) {
		und := 0
		for i, o := range fr.Obls {
			if !o.Cover && ans[i] != "unsat" {
				und++
			}
		}
		if und > 3 {
			out2, secs2 := runSolverCtx(context.Background(), solvers[1], file, batchMs, hard)
			ans2 := parseAnswers(out2)
			stats.mu.Lock()
			stats.Seconds[solvers[1].Name] += secs2
			stats.mu.Unlock()
			if len(ans2) == len(fr.Obls) {
				for i, o := range fr.Obls {
					if !o.Cover && ans[i] != "unsat" && ans2[i] == "unsat" {
						ans[i] = "unsat2"
					}
				}
			}
		}
	}
	setupErr := ""
	if len(ans) != len(fr.Obls) {
		// An error in the prelude/body shifts everything: fall back to single queries for all
		for _, a := range ans {
			if strings.HasPrefix(a, "error") {
				setupErr = a
				break
			}
		}
		if setupErr == "" && len(ans) < len(fr.Obls) {
			setupErr = "solver produced too few answers: " + firstLines(out, 3)
		}
		ans = nil
	}
	for i, o := range fr.Obls {
		a := "unknown"
		if ans != nil {
			a = ans[i]
		}
		if strings.HasPrefix(a, "error") {
			setupErr = a
			a = "unknown"
		}
		want := "unsat"
		if o.Cover {
			// vacuity check: unsat is the bad answer
			o.Result = "proved"
			o.Solver = solvers[0].Name
			if a == "unsat" {
				// confirm with a fresh single-shot run of the portfolio
				single(fr, o, base, i, singleMs, stats, false)
			}
			continue
		}
		if a == "unsat2" && o.Excl == "" {
			o.Result = "proved"
			o.Solver = solvers[1].Name
			stats.mu.Lock()
			stats.Wins[solvers[1].Name]++
			stats.mu.Unlock()
			continue
		}
		if a == "unsat2" {
			a = "unknown"
		}
		if a == want && o.Excl == "" {
			o.Result = "proved"
			o.Solver = solvers[0].Name
			stats.mu.Lock()
			stats.Wins[solvers[0].Name]++
			stats.mu.Unlock()
			continue
		}
		if o.Excl != "" {
			// known finding: proved outside the witness?  then see whether the finding itself is still there
			if a != want {
				single(fr, o, base, i, singleMs, stats, true)
			} else {
				o.Result = "proved"
				o.Solver = solvers[0].Name
			}
			if o.Result == "proved" {
				probe := *o
				probe.Result, probe.Model = "", ""
				single(fr, &probe, base, i, 2500, stats, false)
				o.ExclOK = probe.Result != "proved"
				continue
			}
			continue
		}
		// 2. single query, portfolio
		single(fr, o, base, i, singleMs, stats, false)
		if o.Result != "proved" && setupErr != "" && o.Model == "" {
			o.Model = setupErr
		}
	}
	if !keepFiles {
		os.Remove(file)
	}
}

func firstLines(s string, n int) string {
	ls := strings.Split(s, "\n")
	if len(ls) > n {
		ls = ls[:n]
	}
	return strings.Join(ls, " | ")
}

func single(fr *FuncResult, o *Obligation, base string, idx, timeoutMs int, stats *SolveStats, withExcl bool) {
	var b strings.Builder
	b.WriteString(header)
	b.WriteString(fr.Prelude)
	b.WriteString(fr.Body)
	fmt.Fprintf(&b, "(assert %s)\n(check-sat)\n", goalTerm(o, withExcl))
	suffix := ""
	if withExcl {
		suffix = ".excl"
	}
	file := fmt.Sprintf("%s.%d%s.smt2", base, idx, suffix)
	os.WriteFile(file, []byte(b.String()), 0o644)
	defer os.Remove(file)
	stats.mu.Lock()
	stats.Fallback++
	stats.mu.Unlock()
	type answer struct {
		solver string
		ans    string
		out    string
		secs   float64
	}
	ch := make(chan answer, len(solvers))
	pctx, pcancel := context.WithCancel(context.Background())
	defer pcancel() // the first decisive answer stops the other solvers
	for _, s := range solvers {
		go func(s Solver) {
			out, secs := runSolverCtx(pctx, s, file, timeoutMs, 0)
			as := parseAnswers(out)
			a := "unknown"
			if len(as) > 0 {
				a = as[0]
			}
			ch <- answer{s.Name, a, out, secs}
		}(s)
	}
	var outs []string
	result := "unknown"
	var satBy string
	for range solvers {
		a := <-ch
		stats.mu.Lock()
		stats.Seconds[a.solver] += a.secs
		stats.mu.Unlock()
		outs = append(outs, fmt.Sprintf("%s: %s (%.2fs)", a.solver, firstLines(a.ans, 1), a.secs))
		if o.Cover {
			if a.ans == "unsat" {
				o.Result = "vacuous"
				o.Solver = a.solver
				return
			}
			if a.ans == "sat" {
				o.Result = "proved"
				o.Solver = a.solver
				return
			}
			continue
		}
		if a.ans == "unsat" {
			o.Result = "proved"
			o.Solver = a.solver
			o.TimeMs = int64(a.secs * 1000)
			stats.mu.Lock()
			stats.Wins[a.solver]++
			stats.mu.Unlock()
			return
		}
		if a.ans == "sat" && satBy == "" {
			satBy = a.solver
			result = "sat"
		}
	}
	if o.Cover {
		o.Result = "proved" // unknown on a cover query is not evidence of vacuity
		return
	}
	if result == "sat" {
		o.Result = "failed"
		o.Solver = satBy
		// fetch a model from that solver
		o.Model = getModel(fr, o, base, idx, timeoutMs, satBy, withExcl)
	} else {
		o.Result = "undecided"
	}
	if !withExcl || o.Model == "" {
		o.Model = strings.Join(outs, "; ") + "\n" + o.Model
	}
}

func getModel(fr *FuncResult, o *Obligation, base string, idx, timeoutMs int, solver string, withExcl bool) string {
	var s Solver
	for _, x := range solvers {
		if x.Name == solver {
			s = x
		}
	}
	var b strings.Builder
	b.WriteString(header)
	b.WriteString(fr.Prelude)
	b.WriteString(fr.Body)
	fmt.Fprintf(&b, "(assert %s)\n(check-sat)\n", goalTerm(o, withExcl))
	// ask for the values of parameters and named definitions only
	var names []string
	for _, l := range strings.Split(fr.Body, "\n") {
		if strings.HasPrefix(l, "(declare-const p!") {
			f := strings.Fields(l)
			names = append(names, f[1])
		}
	}
	if len(names) > 0 {
		fmt.Fprintf(&b, "(get-value (%s))\n", strings.Join(names, " "))
	}
	b.WriteString("(get-model)\n")
	file := fmt.Sprintf("%s.%d.model.smt2", base, idx)
	os.WriteFile(file, []byte(b.String()), 0o644)
	defer os.Remove(file)
	out, _ := runSolver(s, file, timeoutMs)
	if len(out) > 20000 {
		out = out[:20000] + "\n...(truncated)"
	}
	return out
}
