package main

import (
	"bytes"
	"context"
	"encoding/json"
	"fmt"
	"os"
	"os/exec"
	"path/filepath"
	"sort"
	"strconv"
	"strings"
	"time"
)

type KnownFindings struct {
	Findings []*KnownFinding `json:"findings"`
	Fixed    []string        `json:"fixed"`
}

func loadKnownFindings(verif string) *KnownFindings {
	kf := &KnownFindings{}
	data, err := os.ReadFile(filepath.Join(verif, "known_findings.json"))
	if err != nil {
		return kf
	}
	if err := json.Unmarshal(data, kf); err != nil {
		fmt.Fprintln(os.Stderr, "known_findings.json:", err)
	}
	return kf
}

func (kf *KnownFinding) matches(o *Obligation, prop string) bool {
	if kf.Status == "fixed" {
		return false
	}
	if kf.Func != o.Func {
		return false
	}
	if kf.Kind != "" && !strings.HasPrefix(o.Kind, kf.Kind) {
		return false
	}
	if kf.SrcMatch != "" && !strings.Contains(o.Src+" "+o.Note+" "+o.Name, kf.SrcMatch) {
		return false
	}
	return true
}

func oblInProp(o *Obligation, fnProps []string, prop string) bool {
	if len(o.Props) > 0 {
		return hasProp(o.Props, prop)
	}
	return hasProp(fnProps, prop)
}

type replayFile struct {
	Property   string   `json:"property"`
	Obligation string   `json:"obligation"`
	Function   string   `json:"function"`
	Kind       string   `json:"kind"`
	Position   string   `json:"position"`
	Source     string   `json:"source"`
	Note       string   `json:"note,omitempty"`
	Result     string   `json:"verifier_result"`
	Solver     string   `json:"solver,omitempty"`
	Output     string   `json:"verifier_output"`
	Replay     string   `json:"replay_outcome"`
	ReplayTest string   `json:"replay_test,omitempty"`
	ReplayRun  string   `json:"replay_run,omitempty"` // test to run in replay_test (default TestVerifReplay)
	ReplayLog  string   `json:"replay_log,omitempty"`
	Errors     []string `json:"errors,omitempty"`
}

func cmdCheck(eng *Engine, args []string, tier string, keep, verbose bool, start time.Time) int {
	if len(args) < 1 {
		fmt.Fprintln(os.Stderr, "usage: rlverify check <property-id> [--tier quick|thorough]")
		return 2
	}
	prop := args[0]
	seed, _ := strconv.Atoi(envOr("VERIF_SEED", "0"))
	batchMs, singleMs := 3000, 10000
	if tier == "thorough" {
		batchMs, singleMs = 10000, 60000
	}
	kfs := loadKnownFindings(eng.verif)
	eng.known = kfs
	eng.curProp = prop

	var fcs []*FuncContract
	var trusted []*FuncContract
	for _, fc := range eng.cs.Funcs {
		if hasProp(fc.Props, prop) {
			if fc.Trusted || fc.Assumed || fc.FnType {
				trusted = append(trusted, fc)
				if fc.Trusted && len(fc.AtCalls) > 0 {
					fcs = append(fcs, fc) // body walked for its call-site assertions only (VerifyFunc)
				}
			} else {
				fcs = append(fcs, fc)
			}
		}
	}
	sort.Slice(fcs, func(i, j int) bool { return fcs[i].Key < fcs[j].Key })
	var lemmas []*AxiomDef
	for _, ax := range eng.cs.Axioms {
		if ax.Lemma && hasProp(ax.Props, prop) {
			lemmas = append(lemmas, ax)
		}
	}
	dir := workDir()
	if !keep {
		defer os.RemoveAll(dir)
	}
	stats := NewSolveStats()
	results := verifyAllProp(eng, fcs, lemmas, prop, dir, batchMs, singleMs, stats, keep)

	outRoot := eng.verif
	if eng.repo != "/repo" {
		// runs against a scratch copy (self-tests, seeded changes) must not overwrite the real evidence
		outRoot = filepath.Join(eng.verif, "tmp", envOr("VERIF_SCRATCH_OUT", "scratch-run"))
	}
	replayDir := filepath.Join(outRoot, "replays", prop)
	os.RemoveAll(replayDir)
	violations := 0
	nObl, nDis := 0, 0
	var samples []map[string]interface{}
	var funcsUnder []string
	assumptions := map[string]bool{}
	calleeHow := map[string]int{}
	var abstractions []string
	knownPrinted := []string{}
	var lines []string
	usedTrusted := map[string]bool{}
	emitViolation := func(name string, rf *replayFile, noInput bool) {
		os.MkdirAll(replayDir, 0o755)
		path := filepath.Join(replayDir, sanitize(name)+".json")
		data, _ := json.MarshalIndent(rf, "", " ")
		os.WriteFile(path, data, 0o644)
		l := fmt.Sprintf("VIOLATION property=%s replay=%s", prop, path)
		if noInput {
			l += " no-failing-input-found"
		}
		lines = append(lines, l)
		violations++
	}
	for _, r := range results {
		funcsUnder = append(funcsUnder, r.Func)
		for _, e := range r.Errs {
			rf := &replayFile{Property: prop, Obligation: r.Func + "/contract", Function: r.Func, Kind: "contract", Result: "error", Output: e, Replay: "not attempted: the contract could not be applied to the current source", Errors: r.Errs}
			emitViolation(r.Func+"_contract_"+fmt.Sprint(violations), rf, true)
			break
		}
		for _, a := range r.Abstr {
			abstractions = append(abstractions, r.Func+": "+a)
		}
		for k, how := range r.Callees {
			calleeHow[how]++
			if strings.Contains(how, "trusted") || strings.Contains(how, "assumed") {
				usedTrusted[k] = true
			}
		}
		for _, o := range r.Obls {
			if !oblInProp(o, r.Props, prop) {
				continue
			}
			nObl++
			ok := o.Result == "proved"
			if ok && o.ExclOK && o.KF != nil {
				// proved only outside the recorded witness: the known finding is still there
				msg := fmt.Sprintf("KNOWN-FINDING: property=%s %s %s [witness: %s; input: %s]", prop, o.Name, o.KF.What, o.KF.Witness, o.KF.Input)
				knownPrinted = append(knownPrinted, msg)
				lines = append(lines, msg)
				nDis++
			} else if ok {
				nDis++
			} else {
				rf := &replayFile{Property: prop, Obligation: o.Name, Function: o.Func, Kind: o.Kind, Position: o.Pos, Source: o.Src, Note: o.Note,
					Result: o.Result, Solver: o.Solver, Output: o.Model, Replay: "no failing input found"}
				noInput := true
				if o.Result == "vacuous" {
					rf.Output = "the preconditions / assumptions on the path to every return are unsatisfiable: the proof would be vacuous"
				}
				if rp := tryReplay(eng, r, o, rf); rp {
					noInput = false
				}
				emitViolation(o.Name, rf, noInput)
			}
			if len(samples) < 6 && (o.Kind == "post" || strings.HasPrefix(o.Kind, "inv") || o.Kind == "lemma" || len(samples) < 2) {
				samples = append(samples, map[string]interface{}{"obligation": o.Name, "at": o.Pos, "text": firstN(o.Src, 200), "result": o.Result, "solver": o.Solver})
			}
		}
	}
	for _, fc := range trusted {
		usedTrusted[fc.Key] = true
	}
	var trustedBase []string
	for k := range usedTrusted {
		if fc := eng.cs.Funcs[k]; fc != nil {
			kind := "trusted (repo function, body not verified)"
			if fc.Assumed {
				kind = "assumed (library function)"
			}
			var cl []string
			for _, r := range fc.Requires {
				cl = append(cl, "requires "+r.Src)
			}
			for _, e := range fc.Ensures {
				cl = append(cl, "ensures "+e.Src)
			}
			trustedBase = append(trustedBase, fmt.Sprintf("%s %s: %s [%s]", kind, shortFuncName(k), strings.Join(cl, "; "), fc.Note))
		}
	}
	sort.Strings(trustedBase)
	for _, a := range eng.cs.AssumedList {
		if strings.HasPrefix(a, "axiom ") {
			assumptions[a] = true
		}
	}
	trustedBase = append(trustedBase,
		"A-SSA: golang.org/x/tools/go/ssa v0.29.0 lowers the Go source faithfully",
		"A-ARITH: int arithmetic is mathematical (no overflow); byte/rune/int32 conversions wrap exactly",
		"A-ALIAS: slices have value semantics (two live slices sharing a backing array are not modelled)",
		"A-LOOP: composition of the per-command contracts by the Readline main loop is not proved",
		"A-ARRAYCELL: the frame of cells of fixed-size arrays ([n]any argument packs of variadic calls, stack buffers of callees) is not checked: never caller-visible objects in this module (each skipped key is listed per function)",
		"trusted contracts that carry at_call clauses: requires / assigns / ensures trusted as before; the body is walked for the call-site assertions only, with callee preconditions and panic sites assumed",
		"SMT solvers z3 4.8.12 / z3 5.1.0 / cvc5 1.0.3 are trusted for unsat answers",
		"library functions without a spec: result unconstrained, assumed not to write module state")
	for _, k := range sortedIntMap(calleeHow) {
		trustedBase = append(trustedBase, fmt.Sprintf("call sites handled as [%s]: %d functions", k, calleeHow[k]))
	}
	sort.Strings(abstractions)
	assumptionList := []string{}
	assumptionList = append(assumptionList, eng.cs.Notes...)
	for a := range assumptions {
		assumptionList = append(assumptionList, a)
	}
	sort.Strings(assumptionList)
	assumptionList = append(assumptionList, abstractions...)
	if len(samples) == 0 {
		samples = append(samples, map[string]interface{}{"note": "no obligations generated"})
	}
	// bounded stand-ins: trusted contracts that are at least run against the real code (never counted as proved)
	boundedNotes := []string{}
	for _, fc := range trusted {
		for _, bs := range fc.Bounded {
			n := "64"
			if tier == "thorough" {
				n = "2048"
			}
			out, ok, ran := runBounded(eng, fc, bs, n)
			name := shortFuncName(fc.Key) + "/bounded:" + bs.Test
			switch {
			case !ran:
				boundedNotes = append(boundedNotes, fmt.Sprintf("%s: NOT RUN (%s)", name, firstN(out, 300)))
			case ok:
				boundedNotes = append(boundedNotes, fmt.Sprintf("%s: bounded, %s cases (%s): the trusted contract held on the real code in every case; not a proof", name, n, bs.Bound))
			default:
				rf := &replayFile{Property: prop, Obligation: name, Function: shortFuncName(fc.Key), Kind: "bounded", Source: bs.Bound,
					Result: "failed on the real code", Output: firstN(out, 6000), Replay: "the bounded test of the trusted contract fails on the real code (output attached)",
					ReplayRun: bs.Test}
				if src, err := os.ReadFile(filepath.Join(eng.verif, "bounded", bs.File)); err == nil {
					rf.ReplayTest = string(src)
				}
				emitViolation(name, rf, false)
			}
		}
	}
	// thorough tier: contract validation against the real code (validate.go)
	var vstats *validateStats
	if tier == "thorough" && os.Getenv("VERIF_NOVALIDATE") == "" {
		vstats = validateProp(eng, results)
	}
	wall := time.Since(start).Seconds()
	ev := map[string]interface{}{
		"property_id": prop,
		"tier":        tier,
		"seed":        seed,
		"level":       "proof",
		"coverage": map[string]interface{}{
			"obligations":              nObl,
			"discharged":               nDis,
			"checker_cmd":              fmt.Sprintf("/verif/bin/rlverify check %s --tier %s", prop, tier),
			"trusted_base":             trustedBase,
			"functions_under_contract": funcsUnder,
			"functions_verified":       len(funcsUnder),
			"lemmas":                   len(lemmas),
			"solver_wins":              stats.Wins,
			"solver_seconds":           stats.Seconds,
			"portfolio_fallbacks":      stats.Fallback,
			"known_findings_printed":   knownPrinted,
			"samples":                  samples,
			"contract_files":           eng.cs.Files,
			"bounded_standins":         boundedNotes,
		},
		"assumptions": assumptionList,
		"wall_s":      wall,
		"violations":  violations,
	}
	modelErr := false
	if vstats != nil {
		cov := ev["coverage"].(map[string]interface{})
		cov["contract_validation"] = vstats
		cov["traces_validated_against_impl"] = vstats.Accepted
		cov["explanation"] = "thorough tier: besides the proof obligations (longer solver limits), every fully proved function whose inputs can be built was run on small random inputs satisfying its requires clauses and its executable ensures clauses were evaluated on the real code (contract_validation); a disagreement is an error of the machinery, not a property violation"
		for _, d := range vstats.Disagreements {
			lines = append(lines, fmt.Sprintf("MODEL-DISAGREEMENT property=%s %s", prop, d))
			modelErr = true
		}
	}
	if nObl == 0 {
		lines = append(lines, fmt.Sprintf("VIOLATION property=%s replay=%s no-failing-input-found", prop, filepath.Join(replayDir, "no_obligations.json")))
		os.MkdirAll(replayDir, 0o755)
		os.WriteFile(filepath.Join(replayDir, "no_obligations.json"), []byte(`{"error":"the check generated zero obligations (vacuous)"}`), 0o644)
		violations++
		ev["violations"] = violations
	}
	os.MkdirAll(filepath.Join(outRoot, "evidence"), 0o755)
	data, _ := json.MarshalIndent(ev, "", " ")
	os.WriteFile(filepath.Join(outRoot, "evidence", prop+".json"), data, 0o644)
	for _, l := range lines {
		fmt.Println(l)
	}
	fmt.Printf("%s [%s]: %d functions, %d lemmas, %d obligations, %d discharged, %d violations, %d known findings, %.1fs (solver wins %v)\n",
		prop, tier, len(funcsUnder), len(lemmas), nObl, nDis, violations, len(knownPrinted), wall, stats.Wins)
	if violations > 0 {
		return 1
	}
	if modelErr {
		// a proved clause is false on the real code: the machinery (or one of its assumptions) is wrong
		return 2
	}
	return 0
}

func sortedIntMap(m map[string]int) []string {
	var ks []string
	for k := range m {
		ks = append(ks, k)
	}
	sort.Strings(ks)
	return ks
}

func verifyAllProp(eng *Engine, fcs []*FuncContract, lemmas []*AxiomDef, prop string, dir string, batchMs, singleMs int, stats *SolveStats, keep bool) []*FuncResult {
	results := verifyGen(eng, fcs, lemmas)
	// drop obligations that do not belong to this property before solving
	for _, r := range results {
		var keepObl []*Obligation
		for _, o := range r.Obls {
			if oblInProp(o, r.Props, prop) {
				keepObl = append(keepObl, o)
			}
		}
		r.Obls = keepObl
	}
	dischargeAll(results, dir, batchMs, singleMs, stats, keep)
	return results
}

// runBounded runs one bounded stand-in test in the package of the trusted function (go test -overlay).
// Returns (output, passed, ran); ran is false when the test could not be run or skipped itself.
func runBounded(eng *Engine, fc *FuncContract, bs BoundedSpec, n string) (string, bool, bool) {
	pkgDir := eng.pkgDirs[fc.PkgPath]
	if pkgDir == "" {
		return "package directory unknown for " + fc.PkgPath, false, false
	}
	src := filepath.Join(eng.verif, "bounded", bs.File)
	if _, err := os.Stat(src); err != nil {
		return err.Error(), false, false
	}
	base, err := os.MkdirTemp("", "rlv-bounded-")
	if err != nil {
		return err.Error(), false, false
	}
	defer os.RemoveAll(base)
	ov := map[string]map[string]string{"Replace": {filepath.Join(pkgDir, "zz_verif_bounded_test.go"): src}}
	data, _ := json.Marshal(ov)
	ovFile := filepath.Join(base, "overlay.json")
	os.WriteFile(ovFile, data, 0o644)
	ctx, cancel := context.WithTimeout(context.Background(), 300*time.Second)
	defer cancel()
	cmd := exec.CommandContext(ctx, "go", "test", "-overlay", ovFile, "-vet=off", "-count=1", "-timeout", "240s", "-v", "-run", "^"+bs.Test+"$", "./")
	cmd.Dir = pkgDir
	cmd.Env = append(os.Environ(), "GOFLAGS=-mod=mod", "GOPROXY=off", "VERIF_BOUND="+n)
	var out bytes.Buffer
	cmd.Stdout = &out
	cmd.Stderr = &out
	rerr := cmd.Run()
	o := strings.Map(func(r rune) rune {
		if r == 0x1b {
			return -1
		}
		return r
	}, out.String())
	if strings.Contains(o, "--- SKIP") || strings.Contains(o, "no tests to run") {
		return o, false, false
	}
	if rerr != nil && !strings.Contains(o, "--- FAIL") {
		return o, false, false // build failure or timeout: undecided, reported as not run
	}
	return o, rerr == nil, true
}
