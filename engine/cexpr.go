package main

// Contract expression language: lexer, parser, AST.
//
//   e ::= int | 'c' | "str" | true | false | nil | ident | e.f | e[i] | e[a:b] | *e | &e
//       | f(e,...) | old(e) | all(i, lo, hi, e) | any(i, lo, hi, e) | ite(c,a,b)
//       | !e | -e | e op e      op: * / % + - == != < <= > >= && || ==> <==>
//
// Precedence (loosest first): <==>, ==> (right assoc), ||, &&, comparisons, + -, * / %, unary.
// Comparison chains a <= b <= c are expanded to conjunctions.

import (
	"fmt"
	"strconv"
	"strings"
	"unicode"
)

type Expr interface{}

type (
	EIdent struct{ Name string }
	EInt   struct{ V int64 }
	EBool  struct{ V bool }
	EStr   struct{ V string }
	ENil   struct{}
	EUn    struct {
		Op string
		X  Expr
	}
	EBin struct {
		Op   string
		X, Y Expr
	}
	ECall struct {
		Fun  string
		Args []Expr
	}
	ESel struct {
		X    Expr
		Name string
	}
	EIdx   struct{ X, I Expr }
	ESlice struct{ X, Lo, Hi Expr }
	EQuant struct {
		All    bool
		Var    string
		Lo, Hi Expr
		Body   Expr
	}
	EOld struct{ X Expr }
)

type ctoken struct {
	kind string // id, int, char, str, op, eof
	s    string
	v    int64
	pos  int
}

func lex(src string) ([]ctoken, error) {
	var toks []ctoken
	i := 0
	for i < len(src) {
		c := src[i]
		switch {
		case c == ' ' || c == '\t' || c == '\n' || c == '\r':
			i++
		case unicode.IsLetter(rune(c)) || c == '_':
			j := i
			for j < len(src) && (unicode.IsLetter(rune(src[j])) || unicode.IsDigit(rune(src[j])) || src[j] == '_' || src[j] == '$') {
				j++
			}
			toks = append(toks, ctoken{kind: "id", s: src[i:j], pos: i})
			i = j
		case c >= '0' && c <= '9':
			j := i
			for j < len(src) && (unicode.IsDigit(rune(src[j])) || unicode.IsLetter(rune(src[j]))) {
				j++
			}
			v, err := strconv.ParseInt(src[i:j], 0, 64)
			if err != nil {
				return nil, fmt.Errorf("bad int %q", src[i:j])
			}
			toks = append(toks, ctoken{kind: "int", v: v, s: src[i:j], pos: i})
			i = j
		case c == '\'':
			j := i + 1
			for j < len(src) && src[j] != '\'' {
				if src[j] == '\\' {
					j++
				}
				j++
			}
			if j >= len(src) {
				return nil, fmt.Errorf("unterminated char literal")
			}
			r, _, _, err := strconv.UnquoteChar(src[i+1:j], '\'')
			if err != nil {
				return nil, fmt.Errorf("bad char literal %s: %v", src[i:j+1], err)
			}
			toks = append(toks, ctoken{kind: "int", v: int64(r), s: src[i : j+1], pos: i})
			i = j + 1
		case c == '"':
			j := i + 1
			for j < len(src) && src[j] != '"' {
				if src[j] == '\\' {
					j++
				}
				j++
			}
			if j >= len(src) {
				return nil, fmt.Errorf("unterminated string literal")
			}
			s, err := strconv.Unquote(src[i : j+1])
			if err != nil {
				return nil, fmt.Errorf("bad string literal: %v", err)
			}
			toks = append(toks, ctoken{kind: "str", s: s, pos: i})
			i = j + 1
		default:
			ops := []string{"<==>", "==>", "==", "!=", "<=", ">=", "&&", "||", "<", ">", "+", "-", "*", "/", "%", "!", "(", ")", "[", "]", ",", ".", ":", "&"}
			found := false
			for _, op := range ops {
				if strings.HasPrefix(src[i:], op) {
					toks = append(toks, ctoken{kind: "op", s: op, pos: i})
					i += len(op)
					found = true
					break
				}
			}
			if !found {
				return nil, fmt.Errorf("unexpected character %q at %d in %q", c, i, src)
			}
		}
	}
	toks = append(toks, ctoken{kind: "eof", pos: len(src)})
	return toks, nil
}

type cparser struct {
	toks []ctoken
	p    int
	src  string
}

func ParseExpr(src string) (e Expr, err error) {
	toks, err := lex(src)
	if err != nil {
		return nil, err
	}
	ps := &cparser{toks: toks, src: src}
	defer func() {
		if r := recover(); r != nil {
			if pe, ok := r.(parseErr); ok {
				err = fmt.Errorf("%s in %q", string(pe), src)
				return
			}
			panic(r)
		}
	}()
	e = ps.parseIff()
	if ps.peek().kind != "eof" {
		ps.fail("unexpected %q", ps.peek().s)
	}
	return e, nil
}

type parseErr string

func (ps *cparser) fail(f string, a ...interface{}) { panic(parseErr(fmt.Sprintf(f, a...))) }
func (ps *cparser) peek() ctoken                    { return ps.toks[ps.p] }
func (ps *cparser) next() ctoken                    { t := ps.toks[ps.p]; ps.p++; return t }
func (ps *cparser) isOp(s string) bool              { t := ps.peek(); return t.kind == "op" && t.s == s }
func (ps *cparser) expect(s string) {
	if !ps.isOp(s) {
		ps.fail("expected %q, got %q", s, ps.peek().s)
	}
	ps.p++
}

func (ps *cparser) parseIff() Expr {
	x := ps.parseImp()
	for ps.isOp("<==>") {
		ps.p++
		y := ps.parseImp()
		x = EBin{"<==>", x, y}
	}
	return x
}

func (ps *cparser) parseImp() Expr {
	x := ps.parseOr()
	if ps.isOp("==>") {
		ps.p++
		y := ps.parseImp()
		return EBin{"==>", x, y}
	}
	return x
}

func (ps *cparser) parseOr() Expr {
	x := ps.parseAnd()
	for ps.isOp("||") {
		ps.p++
		x = EBin{"||", x, ps.parseAnd()}
	}
	return x
}

func (ps *cparser) parseAnd() Expr {
	x := ps.parseCmp()
	for ps.isOp("&&") {
		ps.p++
		x = EBin{"&&", x, ps.parseCmp()}
	}
	return x
}

func isCmp(s string) bool {
	switch s {
	case "==", "!=", "<", "<=", ">", ">=":
		return true
	}
	return false
}

func (ps *cparser) parseCmp() Expr {
	x := ps.parseAdd()
	var res Expr
	for ps.peek().kind == "op" && isCmp(ps.peek().s) {
		op := ps.next().s
		y := ps.parseAdd()
		c := EBin{op, x, y}
		if res == nil {
			res = c
		} else {
			res = EBin{"&&", res, c}
		}
		x = y
	}
	if res != nil {
		return res
	}
	return x
}

func (ps *cparser) parseAdd() Expr {
	x := ps.parseMul()
	for ps.isOp("+") || ps.isOp("-") {
		op := ps.next().s
		x = EBin{op, x, ps.parseMul()}
	}
	return x
}

func (ps *cparser) parseMul() Expr {
	x := ps.parseUnary()
	for ps.isOp("*") || ps.isOp("/") || ps.isOp("%") {
		op := ps.next().s
		x = EBin{op, x, ps.parseUnary()}
	}
	return x
}

func (ps *cparser) parseUnary() Expr {
	switch {
	case ps.isOp("!"):
		ps.p++
		return EUn{"!", ps.parseUnary()}
	case ps.isOp("-"):
		ps.p++
		return EUn{"-", ps.parseUnary()}
	case ps.isOp("*"):
		ps.p++
		return EUn{"*", ps.parseUnary()}
	case ps.isOp("&"):
		ps.p++
		return EUn{"&", ps.parseUnary()}
	}
	return ps.parsePostfix()
}

func (ps *cparser) parsePostfix() Expr {
	x := ps.parsePrimary()
	for {
		switch {
		case ps.isOp("."):
			ps.p++
			t := ps.next()
			if t.kind != "id" {
				ps.fail("expected field name after '.'")
			}
			x = ESel{x, t.s}
		case ps.isOp("["):
			ps.p++
			var lo, hi Expr
			if ps.isOp(":") {
				ps.p++
				if !ps.isOp("]") {
					hi = ps.parseIff()
				}
				ps.expect("]")
				x = ESlice{x, nil, hi}
				continue
			}
			lo = ps.parseIff()
			if ps.isOp(":") {
				ps.p++
				if !ps.isOp("]") {
					hi = ps.parseIff()
				}
				ps.expect("]")
				x = ESlice{x, lo, hi}
				continue
			}
			ps.expect("]")
			x = EIdx{x, lo}
		case ps.isOp("("):
			// call: only on identifiers / qualified identifiers
			name := ""
			switch f := x.(type) {
			case EIdent:
				name = f.Name
			case ESel:
				if id, ok := f.X.(EIdent); ok {
					name = id.Name + "." + f.Name
				}
			}
			if name == "" {
				ps.fail("call of non-identifier")
			}
			ps.p++
			var args []Expr
			for !ps.isOp(")") {
				args = append(args, ps.parseIff())
				if ps.isOp(",") {
					ps.p++
				} else {
					break
				}
			}
			ps.expect(")")
			x = ps.mkCall(name, args)
		default:
			return x
		}
	}
}

func (ps *cparser) mkCall(name string, args []Expr) Expr {
	switch name {
	case "old":
		if len(args) != 1 {
			ps.fail("old takes one argument")
		}
		return EOld{args[0]}
	case "all", "any":
		if len(args) != 4 {
			ps.fail("%s(i, lo, hi, body)", name)
		}
		id, ok := args[0].(EIdent)
		if !ok {
			ps.fail("%s: first argument must be a variable", name)
		}
		return EQuant{All: name == "all", Var: id.Name, Lo: args[1], Hi: args[2], Body: args[3]}
	}
	if name == "allkeys" || name == "anykey" {
		// allkeys(k, m, body) / anykey(k, m, body): body holds for every / some key k present in map m
		if len(args) != 3 {
			ps.fail("%s(k, m, body)", name)
		}
		id, ok := args[0].(EIdent)
		if !ok {
			ps.fail("%s(k, m, body)", name)
		}
		return EQuant{All: name == "allkeys", Var: id.Name, Lo: ECall{"$mapdom", []Expr{args[1]}}, Hi: nil, Body: args[2]}
	}
	if name == "allobj" {
		// allobj(x, "*T", body): body holds for every object reference x of type *T
		if len(args) != 3 {
			ps.fail("allobj(x, \"*T\", body)")
		}
		id, ok1 := args[0].(EIdent)
		ts, ok2 := args[1].(EStr)
		if !ok1 || !ok2 {
			ps.fail("allobj(x, \"*T\", body)")
		}
		return EQuant{All: true, Var: id.Name, Lo: EStr{ts.V}, Hi: nil, Body: args[2]}
	}
	return ECall{name, args}
}

func (ps *cparser) parsePrimary() Expr {
	t := ps.next()
	switch t.kind {
	case "int":
		return EInt{t.v}
	case "str":
		return EStr{t.s}
	case "id":
		switch t.s {
		case "true":
			return EBool{true}
		case "false":
			return EBool{false}
		case "nil":
			return ENil{}
		}
		return EIdent{t.s}
	case "op":
		if t.s == "(" {
			e := ps.parseIff()
			ps.expect(")")
			return e
		}
	}
	ps.fail("unexpected %q", t.s)
	return nil
}

func exprString(e Expr) string {
	switch x := e.(type) {
	case EIdent:
		return x.Name
	case EInt:
		return fmt.Sprint(x.V)
	case EBool:
		return fmt.Sprint(x.V)
	case EStr:
		return strconv.Quote(x.V)
	case ENil:
		return "nil"
	case EUn:
		return x.Op + exprString(x.X)
	case EBin:
		return "(" + exprString(x.X) + " " + x.Op + " " + exprString(x.Y) + ")"
	case ECall:
		var as []string
		for _, a := range x.Args {
			as = append(as, exprString(a))
		}
		return x.Fun + "(" + strings.Join(as, ", ") + ")"
	case ESel:
		return exprString(x.X) + "." + x.Name
	case EIdx:
		return exprString(x.X) + "[" + exprString(x.I) + "]"
	case ESlice:
		lo, hi := "", ""
		if x.Lo != nil {
			lo = exprString(x.Lo)
		}
		if x.Hi != nil {
			hi = exprString(x.Hi)
		}
		return exprString(x.X) + "[" + lo + ":" + hi + "]"
	case EQuant:
		if ts, ok := x.Lo.(EStr); ok && x.Hi == nil {
			return fmt.Sprintf("allobj(%s, %q, %s)", x.Var, ts.V, exprString(x.Body))
		}
		if mc, ok := x.Lo.(ECall); ok && x.Hi == nil && mc.Fun == "$mapdom" {
			n := "anykey"
			if x.All {
				n = "allkeys"
			}
			return fmt.Sprintf("%s(%s, %s, %s)", n, x.Var, exprString(mc.Args[0]), exprString(x.Body))
		}
		n := "any"
		if x.All {
			n = "all"
		}
		return fmt.Sprintf("%s(%s, %s, %s, %s)", n, x.Var, exprString(x.Lo), exprString(x.Hi), exprString(x.Body))
	case EOld:
		return "old(" + exprString(x.X) + ")"
	}
	return "?"
}
