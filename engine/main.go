package main

import (
	"encoding/json"
	"flag"
	"fmt"
	"os"
	"path/filepath"
	"sort"
	"strings"
	"sync"
	"time"
)

func main() {
	if len(os.Args) < 2 {
		fmt.Fprintln(os.Stderr, "usage: rlverify func|check|list|ssa ...")
		os.Exit(2)
	}
	cmd := os.Args[1]
	fs := flag.NewFlagSet(cmd, flag.ExitOnError)
	repo := fs.String("repo", "/repo", "repository root")
	verif := fs.String("verif", "/verif", "verif root")
	tier := fs.String("tier", envOr("VERIF_TIER", "quick"), "quick|thorough")
	keep := fs.Bool("keep", false, "keep SMT files")
	verbose := fs.Bool("v", false, "verbose")
	fs.IntVar(&funcBatchMs, "batch-ms", 3000, "func: per-query limit of the batch run")
	fs.IntVar(&funcSingleMs, "single-ms", 10000, "func: per-query limit of the portfolio run")
	fs.Parse(os.Args[2:])
	args := fs.Args()
	start := time.Now()
	eng, err := LoadEngine(*repo, *verif)
	if err != nil {
		fmt.Fprintln(os.Stderr, "load:", err)
		os.Exit(2)
	}
	if *verbose {
		fmt.Fprintf(os.Stderr, "loaded in %.1fs, %d contracts\n", time.Since(start).Seconds(), len(eng.cs.Funcs))
	}
	switch cmd {
	case "ssa":
		for _, a := range args {
			for k, f := range eng.funcs {
				if strings.HasSuffix(k, a) && f.Blocks != nil {
					f.WriteTo(os.Stdout)
				}
			}
		}
	case "func":
		os.Exit(cmdFunc(eng, args, *keep, *verbose))
	case "check":
		os.Exit(cmdCheck(eng, args, *tier, *keep, *verbose, start))
	case "locals":
		// rlverify locals: parameter and local names of every function under contract (contracts/locals.json)
		out := map[string]*fnLocals{}
		for k, fc := range eng.cs.Funcs {
			if fc.Trusted || fc.Assumed || fc.FnType {
				continue
			}
			if fn := eng.funcs[k]; fn != nil && fn.Blocks != nil {
				out[k] = eng.localsOf(fn)
			}
		}
		data, _ := json.MarshalIndent(out, "", " ")
		fmt.Println(string(data))
	case "validate":
		// rlverify validate <prop>: contract validation against the real code only (see validate.go)
		if len(args) < 1 {
			os.Exit(2)
		}
		eng.curProp = args[0]
		eng.known = loadKnownFindings(eng.verif)
		var fcs []*FuncContract
		for _, fc := range eng.cs.Funcs {
			if hasProp(fc.Props, args[0]) && !fc.Trusted && !fc.Assumed && !fc.FnType {
				fcs = append(fcs, fc)
			}
		}
		sort.Slice(fcs, func(i, j int) bool { return fcs[i].Key < fcs[j].Key })
		dir := workDir()
		defer os.RemoveAll(dir)
		results := verifyAllProp(eng, fcs, nil, args[0], dir, 3000, 10000, NewSolveStats(), false)
		vs := validateProp(eng, results)
		data, _ := json.MarshalIndent(vs, "", " ")
		fmt.Println(string(data))
		if len(vs.Disagreements) > 0 {
			os.Exit(2)
		}
	case "list":
		var ks []string
		for k, fc := range eng.cs.Funcs {
			ks = append(ks, fmt.Sprintf("%-70s %v", shortFuncName(k), fc.Props))
		}
		sort.Strings(ks)
		fmt.Println(strings.Join(ks, "\n"))
	default:
		fmt.Fprintln(os.Stderr, "unknown command", cmd)
		os.Exit(2)
	}
}

func envOr(k, d string) string {
	if v := os.Getenv(k); v != "" {
		return v
	}
	return d
}

func workDir() string {
	d := filepath.Join(os.TempDir(), fmt.Sprintf("rlverify-%d", os.Getpid()))
	os.MkdirAll(d, 0o755)
	return d
}

// cmdFunc verifies the named functions (suffix match on contract keys) and prints every obligation.
var funcBatchMs, funcSingleMs = 3000, 10000

func cmdFunc(eng *Engine, pats []string, keep, verbose bool) int {
	var fcs []*FuncContract
	for k, fc := range eng.cs.Funcs {
		for _, p := range pats {
			if p == "all" || strings.HasSuffix(k, p) || strings.Contains(shortFuncName(k), p) {
				fcs = append(fcs, fc)
				break
			}
		}
	}
	sort.Slice(fcs, func(i, j int) bool { return fcs[i].Key < fcs[j].Key })
	var lemmas []*AxiomDef
	for _, ax := range eng.cs.Axioms {
		for _, p := range pats {
			if ax.Lemma && (p == "all" || strings.Contains(ax.Name, p)) {
				lemmas = append(lemmas, ax)
				break
			}
		}
	}
	dir := workDir()
	if !keep {
		defer os.RemoveAll(dir)
	} else {
		fmt.Fprintln(os.Stderr, "SMT files in", dir)
	}
	eng.known = loadKnownFindings(eng.verif)
	stats := NewSolveStats()
	results := verifyAll(eng, fcs, lemmas, dir, funcBatchMs, funcSingleMs, stats, keep)
	bad := 0
	for _, r := range results {
		if r.Trusted {
			continue
		}
		fmt.Printf("== %s  (%d obligations, %d loops)\n", r.Func, len(r.Obls), r.NLoops)
		for _, e := range r.Errs {
			fmt.Printf("   ERROR %s\n", e)
			bad++
		}
		for _, a := range r.Abstr {
			fmt.Printf("   abstracted: %s\n", a)
		}
		if verbose {
			for _, k := range sortedKeys(r.Callees) {
				fmt.Printf("   callee %s: %s\n", shortFuncName(k), r.Callees[k])
			}
		}
		for _, o := range r.Obls {
			mark := "ok  "
			if o.Result != "proved" {
				mark = "FAIL"
				bad++
			}
			if o.Result != "proved" || verbose {
				fmt.Printf("   %s %-60s %s [%s] %s | %s %s\n", mark, o.Name, o.Result, o.Solver, o.Pos, o.Src, o.Note)
				if o.Result != "proved" && verbose {
					fmt.Printf("        %s\n", strings.ReplaceAll(firstN(o.Model, 1500), "\n", "\n        "))
				}
			}
		}
	}
	fmt.Printf("solver wins %v seconds %v fallback %d\n", stats.Wins, stats.Seconds, stats.Fallback)
	if bad > 0 {
		return 1
	}
	return 0
}

func firstN(s string, n int) string {
	if len(s) > n {
		return s[:n] + "..."
	}
	return s
}

func verifyGen(eng *Engine, fcs []*FuncContract, lemmas []*AxiomDef) []*FuncResult {
	var results []*FuncResult
	for _, fc := range fcs {
		results = append(results, eng.VerifyFunc(fc))
	}
	for _, l := range lemmas {
		results = append(results, eng.VerifyLemma(l))
	}
	for _, fd := range eng.cs.Finals {
		if eng.curProp == "" || hasProp(fd.Props, eng.curProp) {
			if eng.curProp == "" && len(fcs) > 0 && !finalWanted(fd, fcs) {
				continue
			}
			results = append(results, eng.VerifyFinal(fd))
		}
	}
	return results
}

// finalWanted: in "func" mode a final declaration is checked along with the functions of its package.
func finalWanted(fd *FinalDef, fcs []*FuncContract) bool {
	for _, fc := range fcs {
		if filepath.Dir(fc.File) == filepath.Dir(fd.File) {
			return true
		}
	}
	return false
}

func verifyAll(eng *Engine, fcs []*FuncContract, lemmas []*AxiomDef, dir string, batchMs, singleMs int, stats *SolveStats, keep bool) []*FuncResult {
	results := verifyGen(eng, fcs, lemmas)
	dischargeAll(results, dir, batchMs, singleMs, stats, keep)
	return results
}

func dischargeAll(results []*FuncResult, dir string, batchMs, singleMs int, stats *SolveStats, keep bool) {
	var wg sync.WaitGroup
	sem := make(chan struct{}, 8)
	for _, r := range results {
		wg.Add(1)
		go func(r *FuncResult) {
			defer wg.Done()
			sem <- struct{}{}
			defer func() { <-sem }()
			Discharge(r, dir, batchMs, singleMs, stats, keep)
		}(r)
	}
	wg.Wait()
}
