package main

import (
	"encoding/json"
	"fmt"
	"go/ast"
	"go/parser"
	"go/token"
	"go/types"
	"os"
	"path/filepath"
	"sort"
	"strings"

	"golang.org/x/tools/go/packages"
	"golang.org/x/tools/go/ssa"
	"golang.org/x/tools/go/ssa/ssautil"
)

const modulePath = "github.com/reeflective/readline"

type Engine struct {
	// localsMeta: for every function under contract, the parameter names and the local variables (name, type,
	// in declaration order) of the tree the contracts were written against (/verif/contracts/locals.json).
	// Used only to keep a contract applicable after a parameter or a local was renamed.
	localsMeta    map[string]*fnLocals
	finalKeys     map[string]bool
	repo          string
	verif         string
	prog          *ssa.Program
	fset          *token.FileSet
	spkgs         map[string]*ssa.Package
	tpkgs         map[string]*types.Package
	byName        map[string]*types.Package // short package name -> package (module first)
	pkgDirs       map[string]string
	funcs         map[string]*ssa.Function
	cs            *Contracts
	src           map[string][]string
	wsMemo        map[*ssa.Function]*WriteSet
	inlMemo       map[*ssa.Function]bool
	overlay       string
	known         *KnownFindings
	curProp       string
	reachMemo     map[[2]*ssa.Function]bool
	constGlobals  map[*ssa.Global]*ssa.Const
	nonNilGlobals map[*ssa.Global]bool
}

func LoadEngine(repo, verif string) (*Engine, error) {
	e := &Engine{repo: repo, verif: verif, spkgs: map[string]*ssa.Package{}, tpkgs: map[string]*types.Package{},
		byName: map[string]*types.Package{}, pkgDirs: map[string]string{}, funcs: map[string]*ssa.Function{},
		src: map[string][]string{}, wsMemo: map[*ssa.Function]*WriteSet{}, inlMemo: map[*ssa.Function]bool{}}
	cfg := &packages.Config{Mode: packages.LoadAllSyntax, Dir: repo, BuildFlags: []string{"-tags=verif", "-mod=mod"},
		Env: append(os.Environ(), "GOFLAGS=-mod=mod", "GOPROXY=off", "GOOS=linux", "GOARCH=amd64")}
	pkgs, err := packages.Load(cfg, "./...")
	if err != nil {
		return nil, err
	}
	nerr := 0
	packages.Visit(pkgs, nil, func(p *packages.Package) {
		for _, er := range p.Errors {
			fmt.Fprintf(os.Stderr, "load error: %v\n", er)
			nerr++
		}
	})
	if nerr > 0 {
		return nil, fmt.Errorf("%d package load errors", nerr)
	}
	prog, _ := ssautil.AllPackages(pkgs, ssa.InstantiateGenerics|ssa.GlobalDebug)
	prog.Build()
	e.prog = prog
	e.fset = prog.Fset
	for _, p := range prog.AllPackages() {
		e.spkgs[p.Pkg.Path()] = p
		e.tpkgs[p.Pkg.Path()] = p.Pkg
		if _, ok := e.byName[p.Pkg.Name()]; !ok || strings.HasPrefix(p.Pkg.Path(), modulePath) {
			e.byName[p.Pkg.Name()] = p.Pkg
		}
	}
	for _, p := range pkgs {
		if len(p.GoFiles) > 0 {
			e.pkgDirs[p.PkgPath] = filepath.Dir(p.GoFiles[0])
		}
	}
	for f := range ssautil.AllFunctions(prog) {
		if f.Synthetic != "" && !strings.Contains(f.Synthetic, "instance") {
			// wrappers, bound methods, thunks: still index by name for lookups
		}
		e.funcs[f.String()] = f
	}
	e.cs = NewContracts()
	if err := e.cs.LoadAll(repo, verif, filepath.Join(verif, "specs")); err != nil {
		return nil, err
	}
	e.localsMeta = map[string]*fnLocals{}
	if data, err := os.ReadFile(filepath.Join(verif, "contracts", "locals.json")); err == nil {
		_ = json.Unmarshal(data, &e.localsMeta)
	}
	e.finalKeys = map[string]bool{}
	for _, fd := range e.cs.Finals {
		e.finalKeys[fd.Key] = true
	}
	return e, nil
}

type localInfo struct {
	Name string `json:"name"`
	Type string `json:"type"`
}

type fnLocals struct {
	Params []string    `json:"params"`
	Locals []localInfo `json:"locals"`
}

// localsOf lists the named local variables of fn in declaration order (position of the declaring identifier).
func (e *Engine) localsOf(fn *ssa.Function) *fnLocals {
	fl := &fnLocals{}
	for _, p := range fn.Params {
		fl.Params = append(fl.Params, p.Name())
	}
	type lv struct {
		pos  token.Pos
		info localInfo
	}
	seen := map[types.Object]bool{}
	var lvs []lv
	for _, b := range fn.Blocks {
		for _, ins := range b.Instrs {
			d, ok := ins.(*ssa.DebugRef)
			if !ok || d.Object() == nil {
				continue
			}
			v, ok := d.Object().(*types.Var)
			if !ok || seen[v] || v.IsField() {
				continue
			}
			isParam := false
			for _, p := range fn.Params {
				if p.Object() == v {
					isParam = true
				}
			}
			if isParam {
				continue
			}
			seen[v] = true
			lvs = append(lvs, lv{v.Pos(), localInfo{v.Name(), typeKey(v.Type())}})
		}
	}
	sort.Slice(lvs, func(i, j int) bool { return lvs[i].pos < lvs[j].pos })
	for _, l := range lvs {
		fl.Locals = append(fl.Locals, l.info)
	}
	return fl
}

// renamedLocal: a name the contract uses that the current function no longer has: if the recorded tree had a
// local of that name as the k-th local of type T, and the current function's k-th local (or its only local of
// type T with a name the recorded tree did not have) has type T, that local is meant.
func (e *Engine) renamedLocal(fn *ssa.Function, name string) (string, bool) {
	meta := e.localsMeta[fn.String()]
	if meta == nil {
		return "", false
	}
	// a renamed parameter (by position), unless the name still denotes something in the current function
	if len(meta.Params) == len(fn.Params) {
		for i, old := range meta.Params {
			if old == name && fn.Params[i].Name() != name {
				cur := e.localsOf(fn)
				for _, l := range cur.Locals {
					if l.Name == name {
						return "", false
					}
				}
				for _, p := range fn.Params {
					if p.Name() == name {
						return "", false
					}
				}
				return fn.Params[i].Name(), true
			}
		}
	}
	idx := -1
	for i, l := range meta.Locals {
		if l.Name == name {
			idx = i
			break
		}
	}
	if idx < 0 {
		return "", false
	}
	cur := e.localsOf(fn)
	for _, l := range cur.Locals {
		if l.Name == name {
			return "", false // still there: the lookup failed for another reason (scope)
		}
	}
	want := meta.Locals[idx].Type
	if idx < len(cur.Locals) && cur.Locals[idx].Type == want && !metaHas(meta, cur.Locals[idx].Name) {
		return cur.Locals[idx].Name, true
	}
	var cands []string
	for _, l := range cur.Locals {
		if l.Type == want && !metaHas(meta, l.Name) {
			cands = append(cands, l.Name)
		}
	}
	if len(cands) == 1 {
		return cands[0], true
	}
	return "", false
}

func metaHas(m *fnLocals, name string) bool {
	for _, l := range m.Locals {
		if l.Name == name {
			return true
		}
	}
	return false
}

// allFuncs: every function of the module (methods, closures, instances), in a stable order.
func (e *Engine) allFuncs() []*ssa.Function {
	var fs []*ssa.Function
	for _, f := range e.funcs {
		if e.inModule(f) && f.Blocks != nil {
			fs = append(fs, f)
		}
	}
	sort.Slice(fs, func(i, j int) bool { return fs[i].String() < fs[j].String() })
	return fs
}

func (e *Engine) inModule(f *ssa.Function) bool {
	if f == nil {
		return false
	}
	p := f.Pkg
	if p == nil && f.Parent() != nil {
		return e.inModule(f.Parent())
	}
	if p == nil {
		if f.Object() != nil && f.Object().Pkg() != nil {
			return strings.HasPrefix(f.Object().Pkg().Path(), modulePath)
		}
		return false
	}
	return strings.HasPrefix(p.Pkg.Path(), modulePath)
}

func (e *Engine) pkgOf(f *ssa.Function) *types.Package {
	if f.Pkg != nil {
		return f.Pkg.Pkg
	}
	if f.Parent() != nil {
		return e.pkgOf(f.Parent())
	}
	if f.Object() != nil {
		return f.Object().Pkg()
	}
	return nil
}

func (e *Engine) srcLine(pos token.Pos) (string, string) {
	if !pos.IsValid() {
		return "", ""
	}
	p := e.fset.Position(pos)
	lines, ok := e.src[p.Filename]
	if !ok {
		data, err := os.ReadFile(p.Filename)
		if err == nil {
			lines = strings.Split(string(data), "\n")
		}
		e.src[p.Filename] = lines
	}
	text := ""
	if p.Line-1 < len(lines) && p.Line >= 1 {
		text = strings.TrimSpace(lines[p.Line-1])
	}
	rel := p.Filename
	if r, err := filepath.Rel(e.repo, p.Filename); err == nil {
		rel = r
	}
	return fmt.Sprintf("%s:%d:%d", rel, p.Line, p.Column), text
}

// resolveType parses Go type syntax in the scope of pkg (plus imported package names).
func (e *Engine) resolveType(pkgPath, src string) (types.Type, error) {
	src = strings.TrimSpace(src)
	x, err := parser.ParseExpr(src)
	if err != nil {
		return nil, fmt.Errorf("type %q: %v", src, err)
	}
	return e.typeOfAST(pkgPath, x)
}

func (e *Engine) typeOfAST(pkgPath string, x ast.Expr) (types.Type, error) {
	switch t := x.(type) {
	case *ast.Ident:
		if obj := types.Universe.Lookup(t.Name); obj != nil {
			if tn, ok := obj.(*types.TypeName); ok {
				return tn.Type(), nil
			}
		}
		if p := e.tpkgs[pkgPath]; p != nil {
			if obj := p.Scope().Lookup(t.Name); obj != nil {
				if tn, ok := obj.(*types.TypeName); ok {
					return tn.Type(), nil
				}
			}
		}
		return nil, fmt.Errorf("unknown type %s in %s", t.Name, pkgPath)
	case *ast.SelectorExpr:
		id, ok := t.X.(*ast.Ident)
		if !ok {
			return nil, fmt.Errorf("bad qualified type")
		}
		p := e.byName[id.Name]
		if p == nil {
			return nil, fmt.Errorf("unknown package %s", id.Name)
		}
		obj := p.Scope().Lookup(t.Sel.Name)
		if tn, ok := obj.(*types.TypeName); ok {
			return tn.Type(), nil
		}
		// several packages can share a name (golang.org/x/sys/unix, internal/syscall/unix): take the one
		// that has the type, in a stable order
		var paths []string
		for path, q := range e.tpkgs {
			if q.Name() == id.Name {
				paths = append(paths, path)
			}
		}
		sort.Strings(paths)
		for _, path := range paths {
			if tn, ok := e.tpkgs[path].Scope().Lookup(t.Sel.Name).(*types.TypeName); ok {
				return tn.Type(), nil
			}
		}
		return nil, fmt.Errorf("unknown type %s.%s", id.Name, t.Sel.Name)
	case *ast.StarExpr:
		el, err := e.typeOfAST(pkgPath, t.X)
		if err != nil {
			return nil, err
		}
		return types.NewPointer(el), nil
	case *ast.ArrayType:
		el, err := e.typeOfAST(pkgPath, t.Elt)
		if err != nil {
			return nil, err
		}
		return types.NewSlice(el), nil
	case *ast.MapType:
		k, err := e.typeOfAST(pkgPath, t.Key)
		if err != nil {
			return nil, err
		}
		v, err := e.typeOfAST(pkgPath, t.Value)
		if err != nil {
			return nil, err
		}
		return types.NewMap(k, v), nil
	case *ast.ParenExpr:
		return e.typeOfAST(pkgPath, t.X)
	case *ast.FuncType:
		return types.NewSignatureType(nil, nil, nil, nil, nil, false), nil
	case *ast.InterfaceType:
		return types.NewInterfaceType(nil, nil), nil
	}
	return nil, fmt.Errorf("unsupported type syntax %T", x)
}

// ---------------------------------------------------------------------------------
// Heap keys

func namedOf(t types.Type) *types.Named {
	t = types.Unalias(t)
	if p, ok := t.(*types.Pointer); ok {
		t = types.Unalias(p.Elem())
	}
	n, _ := t.(*types.Named)
	return n
}

func typeKey(t types.Type) string {
	return types.TypeString(types.Unalias(t), func(p *types.Package) string { return p.Name() })
}

// fieldKey is the heap array for field f of struct type T (T named or anonymous).
// keyTypes remembers, for every heap key ever formed, the Go type that determines its sort.
var keyTypes = map[string]types.Type{}

func fieldKey(structTy types.Type, field string) string {
	k := "f:" + typeKey(structTy) + "." + field
	if _, ok := keyTypes[k]; !ok {
		if st, ok := structOf(structTy); ok {
			for i := 0; i < st.NumFields(); i++ {
				if st.Field(i).Name() == field {
					keyTypes[k] = st.Field(i).Type()
				}
			}
		}
	}
	return k
}

func cellKey(elem types.Type) string {
	k := "c:" + typeKey(elem)
	keyTypes[k] = elem
	return k
}
func mapKey(m types.Type) string {
	k := "m:" + typeKey(m)
	keyTypes[k] = m
	return k
}
func mapDomKey(m types.Type) string {
	k := "d:" + typeKey(m)
	keyTypes[k] = m
	return k
}

func structOf(t types.Type) (*types.Struct, bool) {
	st, ok := types.Unalias(t).Underlying().(*types.Struct)
	return st, ok
}

func isPtrToStruct(t types.Type) (types.Type, *types.Struct, bool) {
	p, ok := types.Unalias(t).Underlying().(*types.Pointer)
	if !ok {
		return nil, nil, false
	}
	st, ok := structOf(p.Elem())
	return p.Elem(), st, ok
}

// ---------------------------------------------------------------------------------
// Write-set inference (syntactic, transitive over static calls)

type WriteSet struct {
	Keys map[string]bool
	All  bool   // unknown dynamic effects
	Why  string // first reason for All
	// Ref tracking (only filled for the instructions of the function itself, not transitively):
	// for heap keys written only through known SSA reference values, the set of those values.
	Refs   map[string][]ssa.Value
	AnyRef map[string]bool
	track  bool
}

// addKey records that key may be written; ref is the SSA value of the object reference when
// the write is known to go to that object only (nil = any object).
func (w *WriteSet) addKey(key string, ref ssa.Value) {
	w.Keys[key] = true
	if !w.track {
		return
	}
	if ref == nil {
		w.AnyRef[key] = true
		return
	}
	for _, x := range w.Refs[key] {
		if x == ref {
			return
		}
	}
	w.Refs[key] = append(w.Refs[key], ref)
}

// storeRefValue: the SSA value of the object whose field/cell a store through addr writes (nil if unknown).
func storeRefValue(addr ssa.Value) ssa.Value {
	switch a := addr.(type) {
	case *ssa.FieldAddr:
		switch a.X.(type) {
		case *ssa.FieldAddr, *ssa.IndexAddr:
			return storeRefValue(a.X)
		}
		return a.X
	case *ssa.IndexAddr:
		switch x := a.X.(type) {
		case *ssa.UnOp:
			if x.Op == token.MUL {
				return storeRefValue(x.X)
			}
		case *ssa.FieldAddr, *ssa.IndexAddr:
			return storeRefValue(x)
		}
		return nil
	case *ssa.Alloc:
		if allocEscapes(a) {
			return a // a heap cell of its own, addressed by the allocation's reference
		}
		return nil
	case *ssa.Global:
		return nil
	}
	return addr
}

func (w *WriteSet) add(o *WriteSet) {
	for k := range o.Keys {
		w.Keys[k] = true
	}
	if o.All && !w.All {
		w.All = true
		w.Why = o.Why
	}
}

func (w *WriteSet) sorted() []string {
	var ks []string
	for k := range w.Keys {
		ks = append(ks, k)
	}
	sort.Strings(ks)
	return ks
}

// staticStoreKey determines which heap key a store through addr writes.
func (e *Engine) staticStoreKey(addr ssa.Value) (string, bool) {
	switch a := addr.(type) {
	case *ssa.FieldAddr:
		// walk down to the outermost object
		pt := a.X.Type()
		if sty, st, ok := isPtrToStruct(pt); ok {
			// If a.X is itself a FieldAddr (embedded struct by value), the write lands in the
			// enclosing object's field.
			if inner, ok := a.X.(*ssa.FieldAddr); ok {
				return e.staticStoreKey(inner)
			}
			if inner, ok := a.X.(*ssa.IndexAddr); ok {
				return e.staticStoreKey(inner)
			}
			if al, ok := a.X.(*ssa.Alloc); ok && !allocEscapes(al) {
				return "", true // local struct
			}
			return fieldKey(sty, st.Field(a.Field).Name()), true
		}
	case *ssa.IndexAddr:
		// element of a slice value or of an array behind a pointer
		switch x := a.X.(type) {
		case *ssa.UnOp:
			if x.Op == token.MUL {
				return e.staticStoreKey(x.X)
			}
		case *ssa.Alloc:
			if !allocEscapes(x) {
				return "", true
			}
			return cellKey(x.Type().(*types.Pointer).Elem()), true
		case *ssa.FieldAddr:
			return e.staticStoreKey(x)
		case *ssa.IndexAddr:
			return e.staticStoreKey(x)
		}
		return "sl:" + a.X.Name(), true
	case *ssa.Alloc:
		if !allocEscapes(a) {
			return "", true
		}
		el := a.Type().(*types.Pointer).Elem()
		if _, ok := structOf(el); ok {
			return "", true // fresh object; fields written individually via FieldAddr
		}
		return cellKey(el), true
	case *ssa.Global:
		return "g:" + a.String(), true
	default:
		// a pointer value
		if p, ok := types.Unalias(addr.Type()).Underlying().(*types.Pointer); ok {
			if _, isStruct := structOf(p.Elem()); isStruct {
				return "struct:" + typeKey(p.Elem()), true
			}
			return cellKey(p.Elem()), true
		}
	}
	return "", false
}

func allocEscapes(a *ssa.Alloc) bool {
	refs := a.Referrers()
	if refs == nil {
		return true
	}
	var visit func(v ssa.Value, instrs []ssa.Instruction) bool
	visit = func(v ssa.Value, instrs []ssa.Instruction) bool {
		for _, r := range instrs {
			switch i := r.(type) {
			case *ssa.UnOp:
				if i.Op != token.MUL {
					return true
				}
			case *ssa.Store:
				if i.Val == v {
					return true
				}
			case *ssa.DebugRef:
			case *ssa.FieldAddr:
				if rr := i.Referrers(); rr != nil && visit(i, *rr) {
					return true
				}
			case *ssa.IndexAddr:
				if rr := i.Referrers(); rr != nil && visit(i, *rr) {
					return true
				}
			case *ssa.Slice:
				// slicing a local array: value semantics
			default:
				return true
			}
		}
		return false
	}
	return visit(a, *refs)
}

func (e *Engine) structFieldKeys(t types.Type) []string {
	st, ok := structOf(t)
	if !ok {
		return nil
	}
	var ks []string
	for i := 0; i < st.NumFields(); i++ {
		ks = append(ks, fieldKey(t, st.Field(i).Name()))
	}
	return ks
}

func (e *Engine) WriteSetOf(f *ssa.Function) *WriteSet {
	if ws, ok := e.wsMemo[f]; ok {
		return ws
	}
	visiting := map[*ssa.Function]bool{}
	ws := &WriteSet{Keys: map[string]bool{}, Refs: map[string][]ssa.Value{}, AnyRef: map[string]bool{}}
	e.collectWrites(f, ws, visiting, true)
	e.wsMemo[f] = ws
	return ws
}

func (e *Engine) instrWrites(f *ssa.Function, ins ssa.Instruction, ws *WriteSet, visiting map[*ssa.Function]bool) {
	switch i := ins.(type) {
	case *ssa.Store:
		if k, ok := e.staticStoreKey(i.Addr); ok {
			if strings.HasPrefix(k, "struct:") {
				// whole-struct store through a pointer
				for _, fk := range e.structFieldKeys(i.Addr.Type().(*types.Pointer).Elem()) {
					ws.addKey(fk, i.Addr)
				}
			} else if k != "" {
				ws.addKey(k, storeRefValue(i.Addr))
			}
		} else {
			ws.All, ws.Why = true, "store through unknown address in "+f.String()
		}
	case *ssa.MapUpdate:
		ws.addKey(mapKey(i.Map.Type()), i.Map)
		ws.addKey(mapDomKey(i.Map.Type()), i.Map)
	case *ssa.Alloc:
		if i.Heap || allocEscapes(i) {
			ws.addKey("alloc", nil)
			el := i.Type().(*types.Pointer).Elem()
			if _, ok := structOf(el); ok {
				for _, fk := range e.structFieldKeys(el) {
					ws.addKey(fk, i) // fresh object
				}
			} else {
				ws.addKey(cellKey(el), i)
			}
		}
	case *ssa.MakeMap:
		ws.addKey("alloc", nil)
		ws.addKey(mapKey(i.Type()), i)
		ws.addKey(mapDomKey(i.Type()), i)
	case *ssa.Range:
		ws.addKey("it:"+i.Name(), nil)
	case *ssa.Next:
		ws.addKey("it:"+i.Iter.Name(), nil)
	case ssa.CallInstruction:
		e.callWrites(f, i, ws, visiting)
	}
}

func (e *Engine) callWrites(f *ssa.Function, ci ssa.CallInstruction, ws *WriteSet, visiting map[*ssa.Function]bool) {
	c := ci.Common()
	if _, isGo := ci.(*ssa.Go); isGo {
		return
	}
	if c.IsInvoke() {
		key := "(" + typeKey(c.Value.Type()) + ")." + c.Method.Name()
		if fc := e.cs.Funcs[ifaceKey(c)]; fc != nil && fc.HasAssigns {
			names := []string{"self"}
			sig := c.Signature()
			for i := 0; i < sig.Params().Len(); i++ {
				names = append(names, sig.Params().At(i).Name())
			}
			e.addAssignKeys(ws, fc, nil, names, append([]ssa.Value{c.Value}, c.Args...))
			return
		}
		ws.All, ws.Why = true, "interface call "+key+" without contract in "+f.String()
		return
	}
	if b, ok := c.Value.(*ssa.Builtin); ok {
		switch b.Name() {
		case "delete":
			// like a map update: only the map object named by the argument changes
			ws.addKey(mapKey(c.Args[0].Type()), c.Args[0])
			ws.addKey(mapDomKey(c.Args[0].Type()), c.Args[0])
		case "copy":
			// copy into a slice: handled like an element store on its base
			if k, ok := e.staticStoreKey(&ssa.IndexAddr{X: c.Args[0]}); ok && k != "" {
				ws.addKey(k, nil)
			}
		}
		return
	}
	callee := c.StaticCallee()
	if callee == nil {
		if mc, ok := c.Value.(*ssa.MakeClosure); ok {
			callee = mc.Fn.(*ssa.Function)
		}
	}
	if callee == nil {
		// one of several known closures (phi of function values)?
		if targets := closureTargets(c.Value, 0); len(targets) > 0 {
			for _, t := range targets {
				if ws.track {
					sub := e.WriteSetOf(t)
					for k := range sub.Keys {
						ws.addKey(k, nil)
					}
					if sub.All && !ws.All {
						ws.All, ws.Why = true, sub.Why
					}
				} else {
					e.collectWrites(t, ws, visiting, false)
				}
			}
			return
		}
	}
	if callee == nil {
		if fc := e.fnValueContract(c.Value); fc != nil && fc.HasAssigns {
			var names []string
			sig := c.Signature()
			for i := 0; i < sig.Params().Len(); i++ {
				names = append(names, sig.Params().At(i).Name())
			}
			e.addAssignKeys(ws, fc, nil, names, c.Args)
			return
		}
		ws.All, ws.Why = true, "dynamic call of "+c.Value.Name()+" ("+typeKey(c.Value.Type())+") in "+f.String()
		return
	}
	if fc := e.cs.Funcs[callee.String()]; fc != nil && fc.HasAssigns {
		var names []string
		for _, p := range callee.Params {
			names = append(names, p.Name())
		}
		e.addAssignKeys(ws, fc, callee, names, c.Args)
		return
	}
	if false {
		var keys []string
		for _, k := range keys {
			ws.addKey(k, nil)
		}
		return
	}
	if !e.inModule(callee) {
		// Library function: assumed not to write module state, except through pointers passed in.
		for _, a := range c.Args {
			if sty, _, ok := isPtrToStruct(a.Type()); ok {
				if n := namedOf(sty); n != nil && n.Obj().Pkg() != nil && strings.HasPrefix(n.Obj().Pkg().Path(), modulePath) {
					for _, fk := range e.structFieldKeys(sty) {
						ws.addKey(fk, nil)
					}
				}
			} else if p, ok := types.Unalias(a.Type()).Underlying().(*types.Pointer); ok {
				if k, ok := e.staticStoreKey(a); ok && k != "" {
					ws.addKey(k, nil)
				} else {
					ws.addKey(cellKey(p.Elem()), nil)
				}
			}
		}
		return
	}
	if callee.Blocks == nil {
		return
	}
	if ws.track {
		sub := e.WriteSetOf(callee)
		for k := range sub.Keys {
			ws.addKey(k, nil)
		}
		if sub.All && !ws.All {
			ws.All, ws.Why = true, sub.Why
		}
		return
	}
	e.collectWrites(callee, ws, visiting, false)
}

func (e *Engine) collectWrites(f *ssa.Function, ws *WriteSet, visiting map[*ssa.Function]bool, top bool) {
	if visiting[f] {
		return
	}
	if !top {
		if m, ok := e.wsMemo[f]; ok {
			ws.add(m)
			return
		}
	}
	visiting[f] = true
	for _, b := range f.Blocks {
		for _, ins := range b.Instrs {
			e.instrWrites(f, ins, ws, visiting)
		}
	}
	// closures defined inside may run when called; their writes are accounted for at call sites
}

// addAssignKeys adds the keys of a contract's assigns clauses; when tracking references, clauses of the
// form param.field, *param, ghost(param) name the object by the corresponding argument value.
func (e *Engine) addAssignKeys(ws *WriteSet, fc *FuncContract, callee *ssa.Function, names []string, args []ssa.Value) {
	groups := e.assignKeyGroups(fc, callee)
	if !ws.track || len(groups) != len(fc.Assigns) {
		for _, g := range groups {
			for _, k := range g {
				ws.addKey(k, nil)
			}
		}
		return
	}
	for i, a := range fc.Assigns {
		var ref ssa.Value
		var pname string
		switch x := a.E.(type) {
		case ESel:
			if id, ok := x.X.(EIdent); ok {
				pname = id.Name
			}
		case EUn:
			if id, ok := x.X.(EIdent); ok && x.Op == "*" {
				pname = id.Name
			}
		case ECall:
			if sd := e.cs.LookupSpec(fc.PkgPath, x.Fun); sd != nil && sd.Ghost && len(x.Args) == 1 {
				if id, ok := x.Args[0].(EIdent); ok {
					pname = id.Name
				}
			}
		}
		if pname != "" {
			for j, n := range names {
				if (n == pname || fmt.Sprintf("p%d", j) == pname) && j < len(args) {
					ref = args[j]
				}
			}
		}
		for _, k := range groups[i] {
			r := ref
			if !(strings.HasPrefix(k, "f:") || strings.HasPrefix(k, "c:") || strings.HasPrefix(k, "gh:") || strings.HasPrefix(k, "m:") || strings.HasPrefix(k, "d:")) {
				r = nil
			}
			ws.addKey(k, r)
		}
	}
}

func isPtrToStructByName(f *ssa.Function, pname string) (types.Type, bool) {
	for _, p := range f.Params {
		if p.Name() == pname {
			t, _, ok := isPtrToStruct(p.Type())
			return t, ok
		}
	}
	return nil, false
}

func ifaceKey(c *ssa.CallCommon) string {
	return "(" + types.TypeString(types.Unalias(c.Value.Type()), nil) + ")." + c.Method.Name()
}

// fnValueContract: the contract a dynamically called function value is checked against: the contract of its
// named function type, or of the struct field it was loaded from ("fntype field:pkg.T.f", for application
// callbacks kept in fields of unnamed function type).
func (e *Engine) fnValueContract(v ssa.Value) *FuncContract {
	if fc := e.fnTypeContract(v.Type()); fc != nil {
		return fc
	}
	if p, ok := v.(*ssa.Parameter); ok && p.Parent() != nil {
		// "fntype param:<function key>.<parameter>": what a function assumes of a function value it is given
		if fc := e.cs.Funcs["param:"+p.Parent().String()+"."+p.Name()]; fc != nil && fc.FnType {
			return fc
		}
	}
	if u, ok := v.(*ssa.UnOp); ok && u.Op == token.MUL {
		if fa, ok := u.X.(*ssa.FieldAddr); ok {
			if sty, stt, ok := isPtrToStruct(fa.X.Type()); ok {
				k := "field:" + typeKey(sty) + "." + stt.Field(fa.Field).Name()
				if fc := e.cs.Funcs[k]; fc != nil && fc.FnType {
					return fc
				}
			}
		}
	}
	return nil
}

func (e *Engine) fnTypeContract(t types.Type) *FuncContract {
	if n, ok := types.Unalias(t).(*types.Named); ok {
		k := n.Obj().Pkg().Path() + "." + n.Obj().Name()
		if fc := e.cs.Funcs[k]; fc != nil && fc.FnType {
			return fc
		}
	}
	return nil
}

// reaches reports whether function to is reachable from function from through static calls
// (including closures created in the bodies) inside the module.
func (e *Engine) reaches(from, to *ssa.Function) bool {
	if e.reachMemo == nil {
		e.reachMemo = map[[2]*ssa.Function]bool{}
	}
	k := [2]*ssa.Function{from, to}
	if v, ok := e.reachMemo[k]; ok {
		return v
	}
	seen := map[*ssa.Function]bool{}
	var dfs func(f *ssa.Function) bool
	dfs = func(f *ssa.Function) bool {
		if f == to {
			return true
		}
		if seen[f] || f.Blocks == nil || !e.inModule(f) {
			return false
		}
		seen[f] = true
		for _, b := range f.Blocks {
			for _, ins := range b.Instrs {
				switch x := ins.(type) {
				case ssa.CallInstruction:
					if cal := x.Common().StaticCallee(); cal != nil && dfs(cal) {
						return true
					}
				case *ssa.MakeClosure:
					if dfs(x.Fn.(*ssa.Function)) {
						return true
					}
				}
			}
		}
		return false
	}
	r := dfs(from)
	e.reachMemo[k] = r
	return r
}

// constGlobal: a package-level variable of the module that is only ever assigned once, in the package
// initialiser, with a constant, and never has its address taken otherwise, is read as that constant.
func (e *Engine) constGlobal(g *ssa.Global) *ssa.Const {
	if e.constGlobals == nil {
		e.constGlobals = map[*ssa.Global]*ssa.Const{}
		stores := map[*ssa.Global][]*ssa.Store{}
		bad := map[*ssa.Global]bool{}
		for _, f := range e.funcs {
			if f.Blocks == nil || !e.inModule(f) {
				continue
			}
			for _, b := range f.Blocks {
				for _, ins := range b.Instrs {
					switch x := ins.(type) {
					case *ssa.Store:
						if gl, ok := x.Addr.(*ssa.Global); ok {
							stores[gl] = append(stores[gl], x)
						}
						if gl, ok := x.Val.(*ssa.Global); ok {
							bad[gl] = true
						}
					case *ssa.UnOp:
					default:
						for _, op := range ins.Operands(nil) {
							if gl, ok := (*op).(*ssa.Global); ok {
								if _, isDbg := ins.(*ssa.DebugRef); !isDbg {
									bad[gl] = true
								}
							}
						}
					}
				}
			}
		}
		e.nonNilGlobals = map[*ssa.Global]bool{}
		for gl, ss := range stores {
			if bad[gl] || len(ss) != 1 {
				continue
			}
			if k, ok := ss[0].Val.(*ssa.Const); ok && ss[0].Parent().Name() == "init" {
				e.constGlobals[gl] = k
			}
			// var errX = errors.New(...): assigned once, in the initialiser, with a non-nil error
			if call, ok := ss[0].Val.(*ssa.Call); ok && ss[0].Parent().Name() == "init" {
				if cal := call.Common().StaticCallee(); cal != nil && (cal.String() == "errors.New" || cal.String() == "fmt.Errorf") {
					e.nonNilGlobals[gl] = true
				}
			}
		}
	}
	return e.constGlobals[g]
}

// closureTargets: the functions a function-typed SSA value can denote when it is a closure, a function
// or a phi of such (nil if anything else flows in).
func closureTargets(v ssa.Value, depth int) []*ssa.Function {
	if depth > 4 {
		return nil
	}
	switch x := v.(type) {
	case *ssa.MakeClosure:
		return []*ssa.Function{x.Fn.(*ssa.Function)}
	case *ssa.Function:
		return []*ssa.Function{x}
	case *ssa.Phi:
		var out []*ssa.Function
		for _, e := range x.Edges {
			if k, ok := e.(*ssa.Const); ok && k.Value == nil {
				continue // nil function: calling it panics, no effects
			}
			t := closureTargets(e, depth+1)
			if t == nil {
				return nil
			}
			out = append(out, t...)
		}
		return out
	case *ssa.ChangeType:
		return closureTargets(x.X, depth+1)
	}
	return nil
}
