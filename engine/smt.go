package main

// SMT sorts, the sequence prelude and small term builders.
//
// Integers are mathematical (SMT Int).  Slices, arrays and strings are values of an
// axiomatised, uninterpreted sequence sort (one per element sort); the built-in
// SMT Seq theory is deliberately not used.  References (pointers, maps, interface
// values, function values) are Ints, 0 = nil.

import (
	"fmt"
	"go/types"
	"sort"
	"strings"
)

type Sort string

const (
	SInt  Sort = "Int"
	SBool Sort = "Bool"
)

// Term is an SMT-LIB term with its sort and (when known) the Go type it models.
type Term struct {
	S    string
	Sort Sort
	Ty   types.Type
}

func (t Term) String() string { return t.S }

// Sorts keeps track of every sort the current query needs so that the prelude can
// be emitted with exactly the declarations in use.
type Sorts struct {
	seqElems  map[Sort]Sort      // seq sort -> elem sort
	seqOrder  []Sort             // declaration order
	structs   map[string]*DTInfo // datatype name -> info
	dtOrder   []string
	named     map[string]Sort // types.Type string -> sort (cache)
	boxes     map[Sort]bool   // sorts for which box/unbox functions are needed
	strLits   map[string]string
	strOrder  []string
	typeIDs   map[string]int
	mapSorts  map[string][2]Sort // heap key -> K,V sorts
	extraDecl []string
}

type DTInfo struct {
	Name   string
	Fields []DTField
	Ty     types.Type
}
type DTField struct {
	Name string // accessor name
	Go   string // Go field name
	Sort Sort
	Ty   types.Type
}

func NewSorts() *Sorts {
	return &Sorts{seqElems: map[Sort]Sort{}, structs: map[string]*DTInfo{}, named: map[string]Sort{},
		boxes: map[Sort]bool{}, strLits: map[string]string{}, typeIDs: map[string]int{}, mapSorts: map[string][2]Sort{}}
}

func sanitize(s string) string {
	var b strings.Builder
	for _, r := range s {
		switch {
		case r >= 'a' && r <= 'z', r >= 'A' && r <= 'Z', r >= '0' && r <= '9', r == '_':
			b.WriteRune(r)
		case r == '.' || r == '/':
			b.WriteRune('_')
		case r == '*':
			b.WriteString("P")
		case r == '[':
			b.WriteString("L")
		case r == ']':
			b.WriteString("R")
		default:
			b.WriteString("_")
		}
	}
	return b.String()
}

func (ss *Sorts) SeqOf(elem Sort) Sort {
	name := Sort("Sq_" + sanitize(string(elem)))
	if _, ok := ss.seqElems[name]; !ok {
		ss.seqElems[name] = elem
		ss.seqOrder = append(ss.seqOrder, name)
	}
	return name
}

func (ss *Sorts) IsSeq(s Sort) bool { _, ok := ss.seqElems[s]; return ok }
func (ss *Sorts) Elem(s Sort) Sort  { return ss.seqElems[s] }

func shortTypeName(t types.Type) string {
	s := types.TypeString(t, func(p *types.Package) string { return p.Name() })
	return sanitize(s)
}

// SortOf maps a Go type to its SMT sort.
func (ss *Sorts) SortOf(t types.Type) Sort {
	key := types.TypeString(t, nil)
	if s, ok := ss.named[key]; ok {
		return s
	}
	s := ss.sortOf(t)
	ss.named[key] = s
	return s
}

func (ss *Sorts) sortOf(t types.Type) Sort {
	t = types.Unalias(t)
	switch u := t.(type) {
	case *types.Named:
		if st, ok := u.Underlying().(*types.Struct); ok {
			return ss.structSort(shortTypeName(u), st, u)
		}
		return ss.SortOf(u.Underlying())
	case *types.Basic:
		switch {
		case u.Info()&types.IsBoolean != 0:
			return SBool
		case u.Info()&types.IsInteger != 0:
			return SInt
		case u.Info()&types.IsString != 0:
			return ss.SeqOf(SInt)
		case u.Kind() == types.UnsafePointer, u.Kind() == types.UntypedNil:
			return SInt
		case u.Info()&types.IsFloat != 0:
			return "Real"
		}
		return SInt
	case *types.Pointer, *types.Map, *types.Interface, *types.Signature, *types.Chan:
		return SInt
	case *types.Slice:
		return ss.SeqOf(ss.SortOf(u.Elem()))
	case *types.Array:
		return ss.SeqOf(ss.SortOf(u.Elem()))
	case *types.Struct:
		return ss.structSort("anon_"+sanitize(fmt.Sprintf("%x", hashString(types.TypeString(u, nil)))), u, u)
	case *types.TypeParam:
		return SInt
	case *types.Tuple:
		return "TUPLE"
	}
	return SInt
}

func hashString(s string) uint32 {
	var h uint32 = 2166136261
	for i := 0; i < len(s); i++ {
		h ^= uint32(s[i])
		h *= 16777619
	}
	return h
}

func (ss *Sorts) structSort(name string, st *types.Struct, ty types.Type) Sort {
	dn := "S_" + name
	if _, ok := ss.structs[dn]; ok {
		return Sort(dn)
	}
	info := &DTInfo{Name: dn, Ty: ty}
	ss.structs[dn] = info // break recursion
	for i := 0; i < st.NumFields(); i++ {
		f := st.Field(i)
		fs := ss.SortOf(f.Type())
		info.Fields = append(info.Fields, DTField{Name: dn + "." + sanitize(f.Name()), Go: f.Name(), Sort: fs, Ty: f.Type()})
	}
	ss.dtOrder = append(ss.dtOrder, dn)
	return Sort(dn)
}

func (ss *Sorts) Struct(s Sort) *DTInfo { return ss.structs[string(s)] }

func (ss *Sorts) TypeID(t types.Type) int {
	k := types.TypeString(t, nil)
	if id, ok := ss.typeIDs[k]; ok {
		return id
	}
	id := len(ss.typeIDs) + 1
	ss.typeIDs[k] = id
	return id
}

func (ss *Sorts) NeedBox(s Sort) { ss.boxes[s] = true }

// StrLit returns a constant symbol standing for a string literal (a byte sequence).
func (ss *Sorts) StrLit(v string) string {
	if n, ok := ss.strLits[v]; ok {
		return n
	}
	ss.SeqOf(SInt)
	n := fmt.Sprintf("strlit!%d", len(ss.strLits))
	ss.strLits[v] = n
	ss.strOrder = append(ss.strOrder, v)
	return n
}

// Prelude emits all sort/function declarations and axioms.
func (ss *Sorts) Prelude() string {
	var b strings.Builder
	// make sure nested sorts referenced by datatypes exist: iterate to fixpoint
	for _, q := range ss.seqOrder {
		fmt.Fprintf(&b, "(declare-sort %s 0)\n", q)
	}
	// datatypes, in one mutually recursive block
	if len(ss.dtOrder) > 0 {
		names := append([]string{}, ss.dtOrder...)
		sort.Strings(names)
		b.WriteString("(declare-datatypes (")
		for _, n := range names {
			fmt.Fprintf(&b, "(%s 0) ", n)
		}
		b.WriteString(") (\n")
		for _, n := range names {
			info := ss.structs[n]
			fmt.Fprintf(&b, "  ((mk!%s", n)
			for _, f := range info.Fields {
				fmt.Fprintf(&b, " (%s %s)", f.Name, f.Sort)
			}
			b.WriteString("))\n")
		}
		b.WriteString("))\n")
	}
	for _, q := range ss.seqOrder {
		b.WriteString(seqAxioms(string(q), string(ss.seqElems[q])))
	}
	if _, ok := ss.seqElems["Sq_Int"]; ok {
		b.WriteString(stringAxioms)
	}
	for _, v := range ss.strOrder {
		n := ss.strLits[v]
		fmt.Fprintf(&b, "(declare-const %s Sq_Int)\n(assert (= (Sq_Int.len %s) %d))\n", n, n, len(v))
		ascii := true
		for i := 0; i < len(v) && i < 64; i++ {
			fmt.Fprintf(&b, "(assert (= (Sq_Int.at %s %d) %d))\n", n, i, v[i])
			if v[i] >= 128 {
				ascii = false
			}
		}
		if ascii && len(v) <= 64 {
			// an ASCII literal is its own UTF-8 encoding / decoding
			fmt.Fprintf(&b, "(assert (= (utf8.enc %s) %s))\n(assert (= (utf8.dec %s) %s))\n(assert (utf8.clean %s))\n", n, n, n, n, n)
		}
	}
	b.WriteString("(declare-fun typeof! (Int) Int)\n")
	var bs []string
	for s := range ss.boxes {
		bs = append(bs, string(s))
	}
	sort.Strings(bs)
	for _, s := range bs {
		fmt.Fprintf(&b, "(declare-fun box!%s (%s) Int)\n(declare-fun unbox!%s (Int) %s)\n", s, s, s, s)
		fmt.Fprintf(&b, "(assert (forall ((x %s)) (! (= (unbox!%s (box!%s x)) x) :pattern ((box!%s x)))))\n", s, s, s, s)
		fmt.Fprintf(&b, "(assert (forall ((x %s)) (! (not (= (box!%s x) 0)) :pattern ((box!%s x)))))\n", s, s, s)
	}
	for _, d := range ss.extraDecl {
		b.WriteString(d)
		b.WriteString("\n")
	}
	return b.String()
}

func seqAxioms(S, E string) string {
	r := strings.NewReplacer("$S", S, "$E", E)
	return r.Replace(`(declare-fun $S.len ($S) Int)
(declare-fun $S.at ($S Int) $E)
(declare-const $S.empty $S)
(declare-fun $S.unit ($E) $S)
(declare-fun $S.cat ($S $S) $S)
(declare-fun $S.take ($S Int) $S)
(declare-fun $S.drop ($S Int) $S)
(declare-fun $S.upd ($S Int $E) $S)
(declare-fun $S.eq ($S $S) Bool)
(assert (forall ((s $S)) (! (>= ($S.len s) 0) :pattern (($S.len s)))))
(assert (= ($S.len $S.empty) 0))
(assert (forall ((s $S)) (! (=> (= ($S.len s) 0) (= s $S.empty)) :pattern (($S.len s)))))
(assert (forall ((e $E)) (! (= ($S.len ($S.unit e)) 1) :pattern (($S.unit e)))))
(assert (forall ((e $E)) (! (= ($S.at ($S.unit e) 0) e) :pattern (($S.unit e)))))
(assert (forall ((s $S)) (! (=> (= ($S.len s) 1) (= s ($S.unit ($S.at s 0)))) :pattern (($S.len s)))))
(assert (forall ((a $S) (b $S)) (! (= ($S.len ($S.cat a b)) (+ ($S.len a) ($S.len b))) :pattern (($S.cat a b)))))
(assert (forall ((a $S) (b $S) (i Int)) (! (= ($S.at ($S.cat a b) i) (ite (< i ($S.len a)) ($S.at a i) ($S.at b (- i ($S.len a))))) :pattern (($S.at ($S.cat a b) i)))))
(assert (forall ((s $S) (n Int)) (! (=> (and (<= 0 n) (<= n ($S.len s))) (= ($S.len ($S.take s n)) n)) :pattern (($S.take s n)))))
(assert (forall ((s $S) (n Int) (i Int)) (! (=> (and (<= 0 i) (< i n) (<= n ($S.len s))) (= ($S.at ($S.take s n) i) ($S.at s i))) :pattern (($S.at ($S.take s n) i)))))
(assert (forall ((s $S) (n Int)) (! (=> (and (<= 0 n) (<= n ($S.len s))) (= ($S.len ($S.drop s n)) (- ($S.len s) n))) :pattern (($S.drop s n)))))
(assert (forall ((s $S) (n Int) (i Int)) (! (=> (and (<= 0 n) (<= 0 i) (<= n ($S.len s))) (= ($S.at ($S.drop s n) i) ($S.at s (+ i n)))) :pattern (($S.at ($S.drop s n) i)))))
(assert (forall ((s $S) (i Int) (e $E)) (! (= ($S.len ($S.upd s i e)) ($S.len s)) :pattern (($S.upd s i e)))))
(assert (forall ((s $S) (i Int) (e $E) (j Int)) (! (=> (and (<= 0 j) (< j ($S.len s))) (= ($S.at ($S.upd s i e) j) (ite (= i j) e ($S.at s j)))) :pattern (($S.at ($S.upd s i e) j)))))
(assert (forall ((a $S) (b $S)) (! (= ($S.eq a b) (and (= ($S.len a) ($S.len b)) (forall ((i Int)) (! (=> (and (<= 0 i) (< i ($S.len a))) (= ($S.at a i) ($S.at b i))) :pattern (($S.at a i)) :pattern (($S.at b i)))))) :pattern (($S.eq a b)))))
(assert (forall ((a $S) (b $S)) (! (=> ($S.eq a b) (= a b)) :pattern (($S.eq a b)))))
(assert (forall ((s $S)) (! (= ($S.take s ($S.len s)) s) :pattern (($S.take s ($S.len s))))))
(assert (forall ((s $S)) (! (= ($S.drop s 0) s) :pattern (($S.drop s 0)))))
(assert (forall ((s $S)) (! (= ($S.take s 0) $S.empty) :pattern (($S.take s 0)))))
(assert (forall ((s $S)) (! (= ($S.drop s ($S.len s)) $S.empty) :pattern (($S.drop s ($S.len s))))))
(assert (forall ((a $S) (b $S) (n Int)) (! (=> (and (<= 0 n) (<= n ($S.len a))) (= ($S.take ($S.cat a b) n) ($S.take a n))) :pattern (($S.take ($S.cat a b) n)))))
(assert (forall ((a $S) (b $S) (n Int)) (! (=> (and (<= ($S.len a) n) (<= n (+ ($S.len a) ($S.len b)))) (= ($S.drop ($S.cat a b) n) ($S.drop b (- n ($S.len a))))) :pattern (($S.drop ($S.cat a b) n)))))
(assert (forall ((s $S) (n Int) (k Int)) (! (=> (and (<= 0 k) (<= k n) (<= n ($S.len s))) (= ($S.take ($S.take s n) k) ($S.take s k))) :pattern (($S.take ($S.take s n) k)))))
(assert (forall ((s $S) (n Int) (k Int)) (! (=> (and (<= 0 n) (<= 0 k) (<= (+ n k) ($S.len s))) (= ($S.drop ($S.drop s n) k) ($S.drop s (+ n k)))) :pattern (($S.drop ($S.drop s n) k)))))
(assert (forall ((s $S) (n Int)) (! (=> (and (<= 0 n) (<= n ($S.len s))) (= ($S.cat ($S.take s n) ($S.drop s n)) s)) :pattern (($S.cat ($S.take s n) ($S.drop s n))))))
(assert (forall ((a $S) (b $S) (c $S)) (! (= ($S.cat ($S.cat a b) c) ($S.cat a ($S.cat b c))) :pattern (($S.cat ($S.cat a b) c)))))
(assert (forall ((s $S) (a Int) (b Int)) (! (=> (and (<= 0 a) (<= a b) (<= b ($S.len s))) (= ($S.cat ($S.drop ($S.take s b) a) ($S.drop s b)) ($S.drop s a))) :pattern (($S.cat ($S.drop ($S.take s b) a) ($S.drop s b))))))
(assert (forall ((s $S)) (! (= ($S.cat s $S.empty) s) :pattern (($S.cat s $S.empty)))))
(assert (forall ((s $S)) (! (= ($S.cat $S.empty s) s) :pattern (($S.cat $S.empty s)))))
`)
}

// String / rune-sequence conversion functions (uninterpreted, with the axioms the
// contracts need).  san1 is the per-rune effect of a UTF-8 round trip: invalid code
// points become U+FFFD.
const stringAxioms = `(declare-fun utf8.enc1 (Int) Sq_Int)
(declare-fun utf8.enc (Sq_Int) Sq_Int)
(declare-fun utf8.dec (Sq_Int) Sq_Int)
(declare-fun utf8.san (Sq_Int) Sq_Int)
(define-fun utf8.valid1 ((r Int)) Bool (and (<= 0 r) (<= r 1114111) (not (and (<= 55296 r) (<= r 57343)))))
(define-fun utf8.san1 ((r Int)) Int (ite (utf8.valid1 r) r 65533))
(declare-fun utf8.clean (Sq_Int) Bool)
(assert (forall ((r Int)) (! (and (<= 1 (Sq_Int.len (utf8.enc1 r))) (<= (Sq_Int.len (utf8.enc1 r)) 4)) :pattern ((utf8.enc1 r)))))
(assert (forall ((r Int)) (! (=> (and (<= 0 r) (< r 128)) (= (utf8.enc1 r) (Sq_Int.unit r))) :pattern ((utf8.enc1 r)))))
(assert (forall ((s Sq_Int)) (! (= (utf8.dec (utf8.enc s)) (utf8.san s)) :pattern ((utf8.enc s)))))
(assert (forall ((s Sq_Int)) (! (= (Sq_Int.len (utf8.san s)) (Sq_Int.len s)) :pattern ((utf8.san s)))))
(assert (forall ((s Sq_Int) (i Int)) (! (=> (and (<= 0 i) (< i (Sq_Int.len s))) (= (Sq_Int.at (utf8.san s) i) (utf8.san1 (Sq_Int.at s i)))) :pattern ((Sq_Int.at (utf8.san s) i)))))
(assert (forall ((s Sq_Int)) (! (= (utf8.clean s) (forall ((i Int)) (! (=> (and (<= 0 i) (< i (Sq_Int.len s))) (utf8.valid1 (Sq_Int.at s i))) :pattern ((Sq_Int.at s i))))) :pattern ((utf8.clean s)))))
(assert (forall ((a Sq_Int) (b Sq_Int)) (! (= (utf8.enc (Sq_Int.cat a b)) (Sq_Int.cat (utf8.enc a) (utf8.enc b))) :pattern ((utf8.enc (Sq_Int.cat a b))))))
(assert (forall ((r Int)) (! (= (utf8.enc (Sq_Int.unit r)) (utf8.enc1 r)) :pattern ((utf8.enc (Sq_Int.unit r))))))
(assert (= (utf8.enc Sq_Int.empty) Sq_Int.empty))
(assert (forall ((a Sq_Int) (b Sq_Int)) (! (= (utf8.enc (Sq_Int.cat a b)) (Sq_Int.cat (utf8.enc a) (utf8.enc b))) :pattern ((Sq_Int.cat (utf8.enc a) (utf8.enc b))))))
(assert (forall ((s Sq_Int)) (! (=> (utf8.clean s) (= (utf8.san s) s)) :pattern ((utf8.san s)))))
(assert (forall ((a Sq_Int) (b Sq_Int)) (! (= (utf8.clean (Sq_Int.cat a b)) (and (utf8.clean a) (utf8.clean b))) :pattern ((utf8.clean (Sq_Int.cat a b))))))
(assert (forall ((s Sq_Int) (n Int)) (! (=> (and (utf8.clean s) (<= 0 n) (<= n (Sq_Int.len s))) (utf8.clean (Sq_Int.take s n))) :pattern ((utf8.clean (Sq_Int.take s n))))))
(assert (forall ((s Sq_Int) (n Int)) (! (=> (and (utf8.clean s) (<= 0 n) (<= n (Sq_Int.len s))) (utf8.clean (Sq_Int.drop s n))) :pattern ((utf8.clean (Sq_Int.drop s n))))))
(assert (utf8.clean Sq_Int.empty))
(assert (forall ((r Int)) (! (= (utf8.clean (Sq_Int.unit r)) (utf8.valid1 r)) :pattern ((utf8.clean (Sq_Int.unit r))))))
(assert (forall ((s Sq_Int)) (! (utf8.clean (utf8.san s)) :pattern ((utf8.san s)))))
(assert (forall ((s Sq_Int)) (! (utf8.clean (utf8.dec s)) :pattern ((utf8.dec s)))))
(assert (forall ((s Sq_Int)) (! (=> (= (Sq_Int.len (utf8.enc s)) 0) (= (Sq_Int.len s) 0)) :pattern ((utf8.enc s)))))
(assert (forall ((s Sq_Int)) (! (<= (Sq_Int.len (utf8.dec s)) (Sq_Int.len s)) :pattern ((utf8.dec s)))))
(assert (forall ((s Sq_Int)) (! (<= (Sq_Int.len s) (Sq_Int.len (utf8.enc s))) :pattern ((utf8.enc s)))))
(assert (forall ((s Sq_Int)) (! (=> (> (Sq_Int.len s) 0) (> (Sq_Int.len (utf8.dec s)) 0)) :pattern ((utf8.dec s)))))
(assert (forall ((s Sq_Int)) (! (=> (and (> (Sq_Int.len s) 0) (<= 0 (Sq_Int.at s 0)) (<= (Sq_Int.at s 0) 255)) (ite (< (Sq_Int.at s 0) 128) (= (Sq_Int.at (utf8.dec s) 0) (Sq_Int.at s 0)) (>= (Sq_Int.at (utf8.dec s) 0) 128))) :pattern ((utf8.dec s)))))
(assert (forall ((s Sq_Int)) (! (=> (and (= (Sq_Int.len s) 1) (<= 0 (Sq_Int.at s 0)) (<= (Sq_Int.at s 0) 255)) (= (Sq_Int.len (utf8.dec s)) 1)) :pattern ((utf8.dec s)))))
(assert (forall ((s Sq_Int)) (! (=> (and (>= (Sq_Int.len s) 2) (<= 0 (Sq_Int.at s 0)) (< (Sq_Int.at s 0) 128)) (>= (Sq_Int.len (utf8.dec s)) 2)) :pattern ((utf8.dec s)))))
`

func and(ts ...string) string {
	var xs []string
	for _, t := range ts {
		if t == "true" || t == "" {
			continue
		}
		if t == "false" {
			return "false"
		}
		xs = append(xs, t)
	}
	switch len(xs) {
	case 0:
		return "true"
	case 1:
		return xs[0]
	}
	return "(and " + strings.Join(xs, " ") + ")"
}

func or(ts ...string) string {
	var xs []string
	for _, t := range ts {
		if t == "false" || t == "" {
			continue
		}
		if t == "true" {
			return "true"
		}
		xs = append(xs, t)
	}
	switch len(xs) {
	case 0:
		return "false"
	case 1:
		return xs[0]
	}
	return "(or " + strings.Join(xs, " ") + ")"
}

func not(t string) string {
	switch t {
	case "true":
		return "false"
	case "false":
		return "true"
	}
	if strings.HasPrefix(t, "(not ") && balancedTail(t[5:len(t)-1]) {
		return t[5 : len(t)-1]
	}
	return "(not " + t + ")"
}

func balancedTail(s string) bool {
	d := 0
	for i := 0; i < len(s); i++ {
		switch s[i] {
		case '(':
			d++
		case ')':
			d--
			if d < 0 {
				return false
			}
			if d == 0 && i != len(s)-1 {
				return false
			}
		case ' ':
			if d == 0 {
				return false
			}
		}
	}
	return d == 0
}

func implies(a, b string) string {
	if a == "true" {
		return b
	}
	if b == "true" || a == "false" {
		return "true"
	}
	return "(=> " + a + " " + b + ")"
}

func ite(c, a, b string) string {
	if c == "true" {
		return a
	}
	if c == "false" {
		return b
	}
	if a == b {
		return a
	}
	return "(ite " + c + " " + a + " " + b + ")"
}

func app(f string, args ...string) string {
	if len(args) == 0 {
		return f
	}
	return "(" + f + " " + strings.Join(args, " ") + ")"
}

func intLit(v int64) string {
	if v < 0 {
		return fmt.Sprintf("(- %d)", -v)
	}
	return fmt.Sprintf("%d", v)
}
