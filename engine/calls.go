package main

import (
	"fmt"
	"go/token"
	"go/types"
	"strings"

	"golang.org/x/tools/go/ssa"
)

func elemSortOfKey(arraySort string) string {
	// "(Array Int X)" -> X
	s := strings.TrimPrefix(arraySort, "(Array Int ")
	return strings.TrimSuffix(s, ")")
}

func (fr *Frame) setResult(v ssa.Value, results []Term) {
	if v == nil {
		return
	}
	if _, ok := v.Type().(*types.Tuple); ok {
		var vals []Val
		for _, r := range results {
			vals = append(vals, Val{T: r})
		}
		fr.vals[v] = Val{Tup: vals}
		return
	}
	if len(results) == 1 {
		fr.vals[v] = Val{T: results[0]}
	} else if len(results) == 0 {
		fr.vals[v] = Val{T: Term{"0", SInt, v.Type()}}
	}
}

func (fr *Frame) freshResults(sig *types.Signature, name string) []Term {
	c := fr.c
	var res []Term
	for i := 0; i < sig.Results().Len(); i++ {
		ty := sig.Results().At(i).Type()
		srt := c.ss.SortOf(ty)
		n := c.freshConst(fmt.Sprintf("%sret!%s.%d", fr.tag, sanitize(name), i), srt)
		c.assumeRange(n, ty)
		res = append(res, Term{n, srt, ty})
	}
	return res
}

// calleeContract finds the contract (if any) that a call site is checked against.
func (fr *Frame) calleeContract(cc *ssa.CallCommon) (*FuncContract, string) {
	c := fr.c
	if cc.IsInvoke() {
		k := ifaceKey(cc)
		return c.eng.cs.Funcs[k], k
	}
	callee := cc.StaticCallee()
	if callee == nil {
		if val, ok := fr.vals[cc.Value]; ok && val.Fn != nil {
			callee = val.Fn
		}
	}
	if callee != nil {
		return c.eng.cs.Funcs[callee.String()], callee.String()
	}
	if fc := c.eng.fnValueContract(cc.Value); fc != nil {
		return fc, fc.Key
	}
	return nil, "dynamic call of " + cc.Value.Name()
}

func (fr *Frame) call(v ssa.Value, cc *ssa.CallCommon, st *State, ins ssa.Instruction) {
	c := fr.c
	pos := ins.Pos()
	sig := cc.Signature()
	if fr.top && c.fc != nil && len(c.fc.EnsuresAlways) > 0 {
		_, isDefer := ins.(*ssa.Defer)
		_, isBuiltin := cc.Value.(*ssa.Builtin)
		if !isDefer && !isBuiltin {
			// every call may panic, except library / OS functions whose (assumed) contract says they return
			fcc, name := fr.calleeContract(cc)
			if fcc == nil || !(fcc.Trusted || fcc.Assumed) || fcc.MayPanic {
				c.panicPts = append(c.panicPts, panicPoint{st: st.clone(), blk: fr.curBlock, pos: pos, callee: name, fc: fcc})
			}
		}
	}
	if cc.IsInvoke() {
		recv := fr.term(cc.Value, st)
		fr.nopanic(st, "nil", pos, not(app("=", recv.S, "0")), "method call on nil interface")
		fr.curArgVals = append([]ssa.Value{cc.Value}, cc.Args...)
		args := []Term{recv}
		for _, a := range cc.Args {
			args = append(args, fr.term(a, st))
		}
		key := ifaceKey(cc)
		if fc := c.eng.cs.Funcs[key]; fc != nil {
			c.callees[key] = "interface contract"
			fr.applyContract(fc, nil, sig, args, st, pos, v, key, true)
			return
		}
		c.callees[key] = "interface call without contract: heap havocked"
		c.abstracted(fmt.Sprintf("%s: interface call %s without contract: whole heap havocked, result unconstrained", fr.fn.Name(), key))
		c.havocAll(st)
		fr.setResult(v, fr.freshResults(sig, cc.Method.Name()))
		return
	}
	if b, ok := cc.Value.(*ssa.Builtin); ok {
		fr.builtin(v, b, cc, st, pos)
		return
	}
	callee := cc.StaticCallee()
	var clo *ssa.MakeClosure
	if callee == nil {
		if val, ok := fr.vals[cc.Value]; ok && val.Fn != nil {
			callee = val.Fn
			clo = val.Clo
		}
	} else if mc, ok := cc.Value.(*ssa.MakeClosure); ok {
		clo = mc
	}
	var args []Term
	var argVals []ssa.Value
	for _, a := range cc.Args {
		argVals = append(argVals, a)
	}
	fr.curArgVals = argVals
	termArgs := func() []Term {
		if args == nil {
			for _, a := range cc.Args {
				args = append(args, fr.term(a, st))
			}
		}
		return args
	}
	if callee == nil {
		if val, ok := fr.vals[cc.Value]; ok && len(val.Alts) > 0 && fr.depth < 3 {
			if fr.callAlts(v, val.Alts, cc, st) {
				return
			}
		}
	}
	if callee == nil {
		// dynamic call of a function value
		fv := fr.term(cc.Value, st)
		fr.nopanic(st, "nil", pos, not(app("=", fv.S, "0")), "call of nil function")
		if fc := c.eng.fnValueContract(cc.Value); fc != nil {
			c.callees[fc.Key] = "function-type contract"
			fr.applyContract(fc, nil, sig, termArgs(), st, pos, v, fc.Key, false)
			return
		}
		c.callees["dynamic:"+typeKey(cc.Value.Type())] = "dynamic call without contract: heap havocked"
		c.abstracted(fmt.Sprintf("%s: dynamic call of %s (%s) without contract: whole heap havocked, result unconstrained", fr.fn.Name(), cc.Value.Name(), typeKey(cc.Value.Type())))
		c.havocAll(st)
		fr.setResult(v, fr.freshResults(sig, "dyn"))
		return
	}
	name := callee.String()
	if fr.top && c.fc != nil {
		for _, ac := range c.fc.AtCalls {
			match, nth := ac.Match, 0
			if i := strings.Index(match, "#"); i >= 0 {
				fmt.Sscanf(match[i+1:], "%d", &nth)
				match = match[:i]
			}
			if strings.Contains(name, match) {
				if c.atCallSeen == nil {
					c.atCallSeen = map[string]int{}
				}
				key := ac.Match + "|" + ac.C.Label
				c.atCallSeen[key]++
				if nth > 0 && c.atCallSeen[key] != nth {
					continue
				}
				en := &Env{c: c, vars: map[string]Term{}, cur: st, old: c.entry, pkg: c.fc.PkgPath}
				for k, v := range c.params {
					en.vars[k] = v
				}
				for k, v := range c.lets {
					en.vars[k] = v
				}
				// a0, a1, ...: the arguments of this call (a0 is the receiver of a method call)
				for i, a := range termArgs() {
					en.vars[fmt.Sprintf("a%d", i)] = a
				}
				blk := fr.curBlock
				stc := st
				en.lookup = func(n string) (Term, bool) { return fr.localAtEnd(blk, n, stc) }
				g, err := en.EvalBool(ac.C.E)
				if err != nil {
					c.errorf("at_call %s %q: %v", ac.Match, ac.C.Src, err)
					continue
				}
				c.obligation("at-call", ac.C.Label, pos, "before the call to "+shortFuncName(name)+": "+ac.C.Src, st.reach, g, ac.C.Props)
				st.reach = c.define("reach", "Bool", and(st.reach, g))
				if ac.Always {
					st.heap[atCallAlwaysKey(ac)] = "true"
				}
			}
		}
	}
	switch name {
	case "sort.Slice", "sort.SliceStable", "sort.Strings", "sort.Ints", "slices.Sort":
		// in-place sort of a slice: afterwards the slice holds a permutation of its former elements
		// (skolemised both ways); the order itself is not modelled.
		if fr.sortPermute(cc.Args[0], st) {
			c.callees[name] = "built-in: permutes the slice in place (order not modelled)"
			return
		}
	case "math.Ceil":
		// exact on the reals (A-ARITH: float64 treated as mathematical; exact below 2^53)
		x := fr.term(cc.Args[0], st).S
		fr.setVal(v, fmt.Sprintf("(- (to_real (to_int (- %s))))", x))
		c.callees[name] = "built-in: real ceiling (float64 treated as mathematical real)"
		return
	case "math.Floor":
		x := fr.term(cc.Args[0], st).S
		fr.setVal(v, fmt.Sprintf("(to_real (to_int %s))", x))
		c.callees[name] = "built-in: real floor (float64 treated as mathematical real)"
		return
	}
	if c.wantTermination() && c.fn != nil && c.eng.inModule(callee) && callee.Blocks != nil && c.eng.reaches(callee, c.fn) {
		fr.recursionObligation(callee, cc, st, pos)
	}
	if c.wantTermination() && fr.top && c.eng.inModule(callee) && callee.Blocks != nil {
		// termination is modular: a callee whose own termination is not claimed is a stated gap
		if fc := c.eng.cs.Funcs[name]; fc == nil || (!fc.Terminates && !fc.Trusted && !fc.Assumed) {
			if fc != nil || !fr.canInline(callee) {
				c.abstracted("termination of the callee " + shortFuncName(name) + " is not claimed by any contract (only this function's own loops and recursion are)")
			}
		}
	}
	if fc := c.eng.cs.Funcs[name]; fc != nil {
		how := "contract"
		if fc.Trusted {
			how = "trusted contract"
		} else if fc.Assumed {
			how = "assumed library contract"
		}
		c.callees[name] = how
		fr.aliasCheckCall(fc, callee, cc, st, pos)
		fr.applyContract(fc, callee, sig, termArgs(), st, pos, v, name, false)
		return
	}
	if c.eng.inModule(callee) && callee.Blocks != nil && fr.canInline(callee) && !(c.fc != nil && c.fc.NoInline) {
		c.callees[name] = "inlined"
		fr.inline(callee, clo, cc, st, v)
		return
	}
	// havoc
	if c.eng.inModule(callee) && callee.Blocks != nil {
		ws := c.eng.WriteSetOf(callee)
		c.callees[name] = "no contract: write set havocked, result unconstrained"
		if ws.All {
			c.havocAll(st)
		} else {
			for _, k := range ws.sorted() {
				if isLocalKey(k) {
					continue
				}
				c.havocKey(st, k)
			}
		}
		fr.setResult(v, fr.freshResults(sig, callee.Name()))
		return
	}
	// library function without a spec: result unconstrained; assumed not to touch module state
	// except through pointers passed to it.
	c.callees[name] = "library function without spec: result unconstrained, assumed not to write module state"
	for _, a := range cc.Args {
		if val, ok := fr.vals[a]; ok && val.LV != nil && val.LV.kind != lvObj {
			// address of a local / field passed out: contents become unknown
			srt := c.ss.SortOf(val.LV.ty)
			fr.store(val.LV, st, c.freshConst("out", srt))
			continue
		}
		if sty, _, ok := isPtrToStruct(a.Type()); ok {
			t := fr.term(a, st)
			for _, fk := range c.eng.structFieldKeys(sty) {
				es := elemSortOfKey(c.sortOfKey(fk))
				c.heapSet(st, fk, app("store", c.heapGet(st, fk), t.S, c.freshConst("out", Sort(es))))
			}
		}
	}
	fr.setResult(v, fr.freshResults(sig, callee.Name()))
}

func (fr *Frame) canInline(callee *ssa.Function) bool {
	if fr.depth >= 4 {
		return false
	}
	if memo, ok := fr.c.eng.inlMemo[callee]; ok {
		if !memo {
			return false
		}
	} else {
		ok := true
		n := 0
		for _, b := range callee.Blocks {
			n += len(b.Instrs)
			for _, s := range b.Succs {
				if s.Dominates(b) {
					ok = false // loop
				}
			}
		}
		if n > 400 {
			ok = false
		}
		fr.c.eng.inlMemo[callee] = ok
		if !ok {
			return false
		}
	}
	for f := fr; f != nil; f = f.parent {
		if f.fn == callee {
			return false
		}
	}
	return true
}

func (fr *Frame) inline(callee *ssa.Function, clo *ssa.MakeClosure, cc *ssa.CallCommon, st *State, v ssa.Value) {
	c := fr.c
	c.inlineN++
	sub := c.newFrame(callee, fmt.Sprintf("%si%d!", fr.tag, c.inlineN), fr.depth+1)
	sub.parent = fr
	sub.pkg = c.eng.pkgOf(callee).Path()
	for i, p := range callee.Params {
		if i < len(cc.Args) {
			av, ok := fr.vals[cc.Args[i]]
			if ok && av.LV != nil {
				sub.vals[p] = av
				continue
			}
			t := fr.term(cc.Args[i], st)
			sub.vals[p] = Val{T: t, Fn: av.Fn, Clo: av.Clo}
		}
	}
	if clo != nil {
		for i, fv := range callee.FreeVars {
			if i < len(clo.Bindings) {
				b := clo.Bindings[i]
				// bindings live in the frame that created the closure
				owner := fr
				for owner != nil {
					if _, ok := owner.vals[b]; ok {
						break
					}
					owner = owner.parent
				}
				if owner == nil {
					c.errorf("%s: closure binding %s not found", fr.fn, b.Name())
					continue
				}
				bv := owner.vals[b]
				if bv.LV == nil {
					bv = Val{T: owner.term(b, st)}
				}
				sub.vals[fv] = bv
			}
		}
	} else if len(callee.FreeVars) > 0 {
		c.errorf("%s: call of closure %s without known bindings", fr.fn, callee)
	}
	entry := st.clone()
	sub.encodeBody(entry)
	if len(sub.rets) == 0 {
		// never returns normally (always panics)
		st.reach = "false"
		if v != nil {
			fr.setResult(v, fr.freshResults(cc.Signature(), callee.Name()))
		}
		return
	}
	var edges []string
	var states []*State
	for _, r := range sub.rets {
		edges = append(edges, r.state.reach)
		states = append(states, r.state)
	}
	merged := c.mergeStates(edges, states)
	// results
	nres := cc.Signature().Results().Len()
	var results []Term
	for i := 0; i < nres; i++ {
		ty := cc.Signature().Results().At(i).Type()
		srt := c.ss.SortOf(ty)
		term := ""
		for j := len(sub.rets) - 1; j >= 0; j-- {
			t := sub.rets[j].results[i].S
			if term == "" {
				term = t
			} else {
				term = ite(edges[j], t, term)
			}
		}
		results = append(results, Term{c.define(fmt.Sprintf("%sres%d", sub.tag, i), srt, term), srt, ty})
	}
	// drop the callee's defers and locals
	for d := range merged.armed {
		if d.Parent() == callee {
			delete(merged.armed, d)
		}
	}
	var nd []*ssa.Defer
	for _, d := range merged.dord {
		if d.Parent() != callee {
			nd = append(nd, d)
		}
	}
	merged.dord = nd
	*st = *merged
	fr.setResult(v, results)
}

// contractVars binds the callee's parameter names to argument terms.
func (c *FnCtx) contractVars(fc *FuncContract, callee *ssa.Function, sig *types.Signature, args []Term, invoke bool) map[string]Term {
	vars := map[string]Term{}
	if callee != nil {
		for i, p := range callee.Params {
			if i < len(args) {
				t := args[i]
				t.Ty = p.Type()
				vars[p.Name()] = t
				vars[fmt.Sprintf("p%d", i)] = t
			}
		}
		// a parameter renamed since the contract was written keeps its recorded name as an alias
		if meta := c.eng.localsMeta[callee.String()]; meta != nil && len(meta.Params) == len(callee.Params) {
			for i, p := range callee.Params {
				if old := meta.Params[i]; old != p.Name() && i < len(args) {
					if _, clash := vars[old]; !clash {
						vars[old] = vars[p.Name()]
					}
				}
			}
		}
		return vars
	}
	// interface method / function type: names from the signature; receiver is "self"
	off := 0
	if invoke {
		vars["self"] = args[0]
		off = 1
	}
	for i := 0; i < sig.Params().Len(); i++ {
		n := sig.Params().At(i).Name()
		if n == "" || n == "_" {
			n = fmt.Sprintf("p%d", i)
		}
		if i+off < len(args) {
			t := args[i+off]
			t.Ty = sig.Params().At(i).Type()
			vars[n] = t
			vars[fmt.Sprintf("p%d", i)] = t
		}
	}
	return vars
}

func resultNames(callee *ssa.Function, sig *types.Signature) []string {
	var names []string
	for i := 0; i < sig.Results().Len(); i++ {
		n := sig.Results().At(i).Name()
		names = append(names, n)
	}
	return names
}

func bindResults(vars map[string]Term, sig *types.Signature, results []Term) {
	for i, r := range results {
		vars[fmt.Sprintf("result%d", i)] = r
		if n := sig.Results().At(i).Name(); n != "" && n != "_" {
			if _, clash := vars[n]; !clash {
				vars[n] = r
			}
			vars[n+"$r"] = r
		}
	}
	if len(results) == 1 {
		vars["result"] = results[0]
	}
}

func (fr *Frame) applyContract(fc *FuncContract, callee *ssa.Function, sig *types.Signature, args []Term, st *State, pos token.Pos, v ssa.Value, name string, invoke bool) {
	c := fr.c
	argVals := fr.curArgVals
	vars := c.contractVars(fc, callee, sig, args, invoke)
	// receiver nil check for pointer methods is the callee's business (its requires), but a nil
	// receiver of a method that dereferences it would panic inside the callee.
	pre := st.clone()
	en := &Env{c: c, vars: vars, cur: pre, old: pre, pkg: fc.PkgPath}
	c.evalLets(fc, en)
	short := shortFuncName(name)
	for _, r := range fc.Requires {
		g, err := en.EvalBool(r.E)
		if err != nil {
			c.errorf("%s: requires %q of %s: %v", fr.fn.Name(), r.Src, short, err)
			continue
		}
		if c.fc != nil && !c.fc.NoPanic {
			// assume_nopanic: the safety of calls (callee preconditions) is assumed as well
			st.reach = c.define("reach", "Bool", and(st.reach, g))
			continue
		}
		o := c.obligation("pre@"+short, "", pos, "", st.reach, g, r.Props)
		o.Note = "requires " + r.Src
		if fr.tag != "" {
			o.Note += " (inlined " + fr.fn.Name() + ")"
		}
		st.reach = c.define("reach", "Bool", and(st.reach, g))
	}
	// effects
	if fc.HasAssigns {
		for _, a := range fc.Assigns {
			loc, err := en.EvalLValue(a.E)
			if err != nil {
				c.errorf("%s: assigns %q of %s: %v", fr.fn.Name(), a.Src, short, err)
				continue
			}
			for _, k := range loc.keys {
				if c.eng.finalKeys[k] {
					continue // final field: no callee writes it after construction
				}
				if loc.all {
					c.havocKey(st, k)
					continue
				}
				if strings.HasPrefix(k, "g:") || strings.HasPrefix(k, "gg:") {
					c.havocKey(st, k)
					continue
				}
				es := elemSortOfKey(c.sortOfKey(k))
				nv := c.freshConst("hv", Sort(es))
				if t, ok := keyTypes[k]; ok && (k[0] == 'f' || k[0] == 'c') {
					c.assumeRange(nv, t)
				}
				c.heapSet(st, k, app("store", c.heapGet(st, k), loc.ref, nv))
			}
		}
	} else if callee != nil && c.eng.inModule(callee) && callee.Blocks != nil {
		ws := c.eng.WriteSetOf(callee)
		if ws.All {
			c.abstracted(fmt.Sprintf("%s: callee %s has unknown effects (%s) and no assigns clause: whole heap havocked", fr.fn.Name(), short, ws.Why))
			c.havocAll(st)
		} else {
			for _, k := range ws.sorted() {
				if isLocalKey(k) {
					continue
				}
				c.havocKey(st, k)
			}
		}
	} else if callee == nil {
		c.abstracted(fmt.Sprintf("%s: %s has no assigns clause: whole heap havocked", fr.fn.Name(), short))
		c.havocAll(st)
	}
	results := fr.freshResults(sig, short)
	post := &Env{c: c, vars: map[string]Term{}, cur: st, old: pre, pkg: fc.PkgPath}
	for k, t := range en.vars {
		post.vars[k] = t
	}
	// slice parameters whose contents the callee overwrites
	if len(fc.Writes) > 0 && argVals != nil {
		c.ghostOld = map[string]Term{}
		for _, wname := range fc.Writes {
			t, ok := en.vars[wname]
			if !ok || !c.ss.IsSeq(t.Sort) {
				c.errorf("%s: writes %s of %s: no such slice parameter", fr.fn.Name(), wname, short)
				continue
			}
			// which argument?
			var av ssa.Value
			for i := range argVals {
				if i < len(args) && args[i].S == t.S {
					av = argVals[i]
				}
			}
			nw := c.freshConst("written", t.Sort)
			c.emit(fmt.Sprintf("(assert (= (%s.len %s) (%s.len %s)))", t.Sort, nw, t.Sort, t.S))
			post.vars[wname] = Term{nw, t.Sort, t.Ty}
			c.ghostOld[wname] = t
			if av != nil {
				key := "sl:" + fr.tag + av.Name()
				c.heapSort[key] = string(t.Sort)
				c.heapSet(st, key, nw)
				if lv, ok := fr.prov[av]; ok && fr.provValid(av, st) {
					fr.store(lv, st, nw)
					fr.provStamp(av, st)
				}
			}
		}
	}
	bindResults(post.vars, sig, results)
	for _, e := range fc.Ensures {
		g, err := post.EvalBool(e.E)
		if err != nil {
			c.errorf("%s: ensures %q of %s: %v", fr.fn.Name(), e.Src, short, err)
			continue
		}
		c.assume(st.reach, g)
	}
	c.ghostOld = nil
	if fc.Defines != "" && len(results) == 1 {
		// result == spec(args...): the function is pure and deterministic (its frame is proved), so its
		// result is a function of its arguments; the spec function is that function's name.
		var argExprs []Expr
		if callee != nil {
			for _, p := range callee.Params {
				argExprs = append(argExprs, EIdent{p.Name()})
			}
		}
		g, err := post.EvalBool(EBin{"==", EIdent{"result"}, ECall{fc.Defines, argExprs}})
		if err != nil {
			c.errorf("%s: defines %s of %s: %v", fr.fn.Name(), fc.Defines, short, err)
		} else {
			c.assume(st.reach, g)
		}
	}
	// references returned are allocated or nil
	for _, r := range results {
		if r.Sort == SInt && r.Ty != nil && isRefLike(r.Ty) {
			if _, isIface := types.Unalias(r.Ty).Underlying().(*types.Interface); !isIface {
				// may be freshly allocated by the callee: no constraint
			}
		}
	}
	fr.setResult(v, results)
}

// evalLets evaluates the contract's "let name = expr" bindings in en (entry state) and adds them to en.vars.
func (c *FnCtx) evalLets(fc *FuncContract, en *Env) {
	for _, l := range fc.LetSrc {
		t, err := en.Eval(l.E)
		if err != nil {
			c.errorf("let %s of %s: %v", l.Label, fc.Key, err)
			continue
		}
		n := c.define("let!"+sanitize(l.Label), t.Sort, t.S)
		en.vars[l.Label] = Term{n, t.Sort, t.Ty}
	}
}

func (fr *Frame) runDefers(st *State) {
	c := fr.c
	for i := len(st.dord) - 1; i >= 0; i-- {
		d := st.dord[i]
		if d.Parent() != fr.fn {
			continue
		}
		armed, ok := st.armed[d]
		if !ok || armed == "false" {
			continue
		}
		cur := fr.curBlock
		always := cur != nil && d.Block().Dominates(cur)
		if always {
			fr.call(nil, d.Common(), st, d)
			continue
		}
		s2 := st.clone()
		s2.reach = c.define("reach", "Bool", and(st.reach, armed))
		fr.call(nil, d.Common(), s2, d)
		s1 := st.clone()
		s1.reach = c.define("reach", "Bool", and(st.reach, not(armed)))
		m := c.mergeStates([]string{s2.reach, s1.reach}, []*State{s2, s1})
		*st = *m
	}
}

func (fr *Frame) builtin(v ssa.Value, b *ssa.Builtin, cc *ssa.CallCommon, st *State, pos token.Pos) {
	c := fr.c
	switch b.Name() {
	case "len":
		t := fr.term(cc.Args[0], st)
		if c.ss.IsSeq(t.Sort) {
			fr.setVal(v, app(string(t.Sort)+".len", t.S))
			return
		}
		// map / chan length
		if m, isMap := types.Unalias(cc.Args[0].Type()).Underlying().(*types.Map); isMap {
			card := c.mapCard(c.ss.SortOf(m.Key()))
			dom := app("select", c.heapGet(st, mapDomKey(cc.Args[0].Type())), t.S)
			fr.setVal(v, ite(app("=", t.S, "0"), "0", app(card, dom)))
			return
		}
		n := fr.setFresh(v)
		c.emit(fmt.Sprintf("(assert (>= %s 0))", n))
	case "cap":
		t := fr.term(cc.Args[0], st)
		n := fr.setFresh(v)
		if c.ss.IsSeq(t.Sort) {
			c.emit(fmt.Sprintf("(assert (>= %s (%s.len %s)))", n, t.Sort, t.S))
		}
	case "append":
		a := fr.term(cc.Args[0], st)
		bb := fr.term(cc.Args[1], st)
		fr.setVal(v, app(string(a.Sort)+".cat", a.S, bb.S))
	case "copy":
		dst := fr.term(cc.Args[0], st)
		src := fr.term(cc.Args[1], st)
		S := string(dst.Sort)
		n := c.define("copyn", "Int", ite(app("<=", app(S+".len", dst.S), app(S+".len", src.S)), app(S+".len", dst.S), app(S+".len", src.S)))
		nd := app(S+".cat", app(S+".take", src.S, n), app(S+".drop", dst.S, n))
		if p, ok := fr.prov[cc.Args[0]]; ok && fr.provValid(cc.Args[0], st) {
			fr.store(p, st, nd)
			fr.provStamp(cc.Args[0], st)
		}
		key := "sl:" + fr.tag + cc.Args[0].Name()
		c.heapSort[key] = S
		c.heapSet(st, key, nd)
		if v != nil {
			fr.vals[v] = Val{T: Term{n, SInt, tInt}}
		}
	case "delete":
		m := fr.term(cc.Args[0], st).S
		k := fr.term(cc.Args[1], st).S
		dk := mapDomKey(cc.Args[0].Type())
		hd := c.heapGet(st, dk)
		c.heapSet(st, dk, app("store", hd, m, app("store", app("select", hd, m), k, "false")))
	case "min", "max":
		t := fr.term(cc.Args[0], st).S
		for _, a := range cc.Args[1:] {
			u := fr.term(a, st).S
			if b.Name() == "min" {
				t = ite(app("<=", t, u), t, u)
			} else {
				t = ite(app(">=", t, u), t, u)
			}
		}
		fr.setVal(v, t)
	case "print", "println":
	case "recover":
		fr.setFresh(v)
	default:
		c.abstracted(fr.fn.Name() + ": builtin " + b.Name() + " abstracted")
		if v != nil {
			if _, ok := v.Type().(*types.Tuple); ok {
				fr.freshTuple(v, st)
			} else {
				fr.setFresh(v)
			}
		}
	}
}

// recursionObligation: a call that can lead back to the function being verified must decrease its measure.
func (fr *Frame) recursionObligation(callee *ssa.Function, cc *ssa.CallCommon, st *State, pos token.Pos) {
	c := fr.c
	short := shortFuncName(callee.String())
	fc2 := c.eng.cs.Funcs[callee.String()]
	if c.fc.RecAssumed != "" {
		c.abstracted("recursion through " + short + " assumed bounded: " + c.fc.RecAssumed)
		return
	}
	if len(c.fc.Measure) == 0 || fc2 == nil || len(fc2.Measure) != len(c.fc.Measure) {
		o := c.obligation("rec-dec", "", pos, "", st.reach, "false", nil)
		o.Note = "call to " + short + " can re-enter " + c.fnName() + " and no decreasing measure is given (unbounded recursion)"
		c.continueAfterFalse(st)
		return
	}
	var args []Term
	for _, a := range cc.Args {
		args = append(args, fr.term(a, st))
	}
	vars := c.contractVars(fc2, callee, cc.Signature(), args, false)
	en2 := &Env{c: c, vars: vars, cur: st, old: st, pkg: fc2.PkgPath}
	en1 := &Env{c: c, vars: map[string]Term{}, cur: c.entry, old: c.entry, pkg: c.fc.PkgPath}
	for k, v := range c.params {
		en1.vars[k] = v
	}
	goal := "false"
	for i := len(fc2.Measure) - 1; i >= 0; i-- {
		a, err1 := en2.Eval(fc2.Measure[i].E)
		b, err2 := en1.Eval(c.fc.Measure[i].E)
		if err1 != nil || err2 != nil {
			c.errorf("measure of %s / %s: %v %v", short, c.fnName(), err1, err2)
			return
		}
		dec := and(app("<", a.S, b.S), app(">=", b.S, "0"))
		if i == len(fc2.Measure)-1 {
			goal = dec
		} else {
			goal = or(dec, and(app("=", a.S, b.S), goal))
		}
	}
	c.obligation("rec-dec", "", pos, "", st.reach, goal, nil).Note = "measure decreases at call to " + short
	st.reach = c.define("reach", "Bool", and(st.reach, goal))
}

// mapCard declares the cardinality function of map domains over key sort ks, with the axioms needed
// to follow insertions and deletions.
func (c *FnCtx) mapCard(ks Sort) string {
	name := "mapcard!" + sanitize(string(ks))
	if c.specDecl == nil {
		c.specDecl = map[string]bool{}
	}
	if c.specDecl[name] {
		return name
	}
	c.specDecl[name] = true
	K := string(ks)
	D := fmt.Sprintf("(Array %s Bool)", K)
	c.ss.extraDecl = append(c.ss.extraDecl,
		fmt.Sprintf("(declare-fun %s (%s) Int)", name, D),
		fmt.Sprintf("(assert (forall ((d %s)) (! (>= (%s d) 0) :pattern ((%s d)))))", D, name, name),
		fmt.Sprintf("(assert (= (%s ((as const %s) false)) 0))", name, D),
		fmt.Sprintf("(assert (forall ((d %s) (k %s)) (! (=> (select d k) (> (%s d) 0)) :pattern ((select d k) (%s d)))))", D, K, name, name),
		fmt.Sprintf("(assert (forall ((d %s) (k %s)) (! (= (%s (store d k true)) (ite (select d k) (%s d) (+ (%s d) 1))) :pattern ((%s (store d k true))))))", D, K, name, name, name, name),
		fmt.Sprintf("(assert (forall ((d %s) (k %s)) (! (= (%s (store d k false)) (ite (select d k) (- (%s d) 1) (%s d))) :pattern ((%s (store d k false))))))", D, K, name, name, name, name))
	return name
}

// callAlts: the callee is one of several known closures, selected by the path taken earlier
// (typically `if x { f = func... } else { f = func... }`): each alternative is inlined under its
// path condition and the resulting states are merged.
func (fr *Frame) callAlts(v ssa.Value, alts []altFn, cc *ssa.CallCommon, st *State) bool {
	c := fr.c
	for _, a := range alts {
		if !c.eng.inModule(a.fn) || a.fn.Blocks == nil || !fr.canInline(a.fn) {
			return false
		}
		if len(a.fn.FreeVars) > 0 && a.clo == nil {
			return false
		}
	}
	var edges []string
	var states []*State
	var results [][]Term
	for _, a := range alts {
		s2 := st.clone()
		s2.reach = c.define("reach", "Bool", and(st.reach, a.cond))
		// inline into a scratch SSA value holder: results are read back from fr.vals[v]
		fr.inline(a.fn, a.clo, cc, s2, v)
		c.callees[a.fn.String()] = "inlined (one of several closures selected by the path)"
		var rs []Term
		if v != nil {
			if val, ok := fr.vals[v]; ok {
				if val.Tup != nil {
					for _, t := range val.Tup {
						rs = append(rs, t.T)
					}
				} else {
					rs = append(rs, val.T)
				}
			}
		}
		edges = append(edges, s2.reach)
		states = append(states, s2)
		results = append(results, rs)
	}
	merged := c.mergeStates(edges, states)
	*st = *merged
	if v != nil && len(results) > 0 && len(results[0]) > 0 {
		var out []Term
		for i := range results[0] {
			term := ""
			for j := len(results) - 1; j >= 0; j-- {
				if i >= len(results[j]) {
					continue
				}
				t := results[j][i].S
				if term == "" {
					term = t
				} else {
					term = ite(edges[j], t, term)
				}
			}
			r := results[0][i]
			out = append(out, Term{c.define(fr.tag+v.Name()+"alt", r.Sort, term), r.Sort, r.Ty})
		}
		fr.setResult(v, out)
	}
	return true
}

// sortPermute models an in-place sort of the slice value v: new contents p with the same length such that
// every element of p occurs in the old contents and vice versa.
func (fr *Frame) sortPermute(v ssa.Value, st *State) bool {
	c := fr.c
	// sort.Slice takes an interface: look through MakeInterface
	if mi, ok := v.(*ssa.MakeInterface); ok {
		v = mi.X
	}
	old := fr.term(v, st)
	if !c.ss.IsSeq(old.Sort) {
		return false
	}
	S := string(old.Sort)
	p := c.freshConst("sorted", old.Sort)
	fwd := c.fresh("perm")
	inv := c.fresh("perminv")
	c.emit(fmt.Sprintf("(declare-fun %s (Int) Int)", fwd))
	c.emit(fmt.Sprintf("(declare-fun %s (Int) Int)", inv))
	on := c.define("presort", S, old.S)
	c.emit(fmt.Sprintf("(assert (= (%s.len %s) (%s.len %s)))", S, p, S, on))
	c.emit(fmt.Sprintf("(assert (forall ((i Int)) (! (=> (and (<= 0 i) (< i (%s.len %s))) (and (<= 0 (%s i)) (< (%s i) (%s.len %s)) (= (%s.at %s i) (%s.at %s (%s i))))) :pattern ((%s.at %s i)))))", S, p, fwd, fwd, S, on, S, p, S, on, fwd, S, p))
	c.emit(fmt.Sprintf("(assert (forall ((j Int)) (! (=> (and (<= 0 j) (< j (%s.len %s))) (and (<= 0 (%s j)) (< (%s j) (%s.len %s)) (= (%s.at %s (%s j)) (%s.at %s j)))) :pattern ((%s.at %s j)))))", S, on, inv, inv, S, p, S, p, inv, S, on, S, on))
	key := "sl:" + fr.tag + v.Name()
	c.heapSort[key] = S
	c.heapSet(st, key, p)
	if lv, ok := fr.prov[v]; ok && fr.provValid(v, st) {
		fr.store(lv, st, p)
		fr.provStamp(v, st)
	}
	return true
}

// atCallAlwaysKey: the function-local boolean "the call matched by this at_call! clause has been executed".
func atCallAlwaysKey(ac AtCall) string { return "loc:atcall:" + ac.Match + "|" + ac.C.Label }
