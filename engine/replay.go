package main

// Counterexample replay: from a failed obligation to a test on the real code.
//
// Scope (stated in DESIGN.md §2.5): functions whose parameters (receiver included) are integers, booleans,
// strings, slices of integers, or pointers to such values / to structs of the function's own package built from
// them (Cursor, Selection, Keys, Parser, lineHistory ...).  Obligation kinds: nopanic:* (the test must
// panic at the obligation's source line), post (the clause, compiled to Go, must evaluate to false) and dec
// (the call must still be running after a watchdog delay).
//
// 1. Candidate input: the failed query is asked again with get-value for the parameters, then for the fields /
//    lengths / elements they reach (each answer is pinned before the next question).  The solver's answer may
//    be sat or unknown (quantified axioms): an unknown still comes with a candidate model of the ground part.
// 2. The candidate is only a candidate: the generated test first evaluates every requires clause (compiled to
//    Go) on it and gives up unless all of them hold, then calls the real function.
// 3. The test is injected with go test -overlay (nothing is written to the repository).

import (
	"bytes"
	"context"
	"encoding/json"
	"fmt"
	"go/types"
	"os"
	"os/exec"
	"path/filepath"
	"regexp"
	"sort"
	"strconv"
	"strings"
	"time"

	"golang.org/x/tools/go/ssa"
)

const replayMaxSeq = 12

var replayCount, replayBudget = 0, 3

type rpValue struct {
	kind   string // int, bool, seq, ref, unsupported
	i      int64
	b      bool
	elems  []int64
	ref    int64
	fields map[string]*rpValue // for refs to structs: field name -> value; for refs to cells: "*" -> value
	ty     types.Type
}

type replayer struct {
	eng    *Engine
	fr     *FuncResult
	o      *Obligation
	fn     *ssa.Function
	fc     *FuncContract
	pins   []string
	bounds []string
	small  bool
	seqs   []*rpValue // sequence slots, in the order they are rendered
	decl   map[string]bool
	objs   map[int64]*rpValue // shared objects by reference
	log    []string
	base   string
	steps  int
}

func replayableBasic(t types.Type) bool {
	switch u := types.Unalias(t).Underlying().(type) {
	case *types.Basic:
		return u.Info()&(types.IsInteger|types.IsBoolean|types.IsString) != 0
	case *types.Slice:
		if b, ok := types.Unalias(u.Elem()).Underlying().(*types.Basic); ok {
			return b.Info()&types.IsInteger != 0
		}
	}
	return false
}

// tryReplay turns a failed obligation into a test on the real code.  Returns true if a failing input was reproduced.
// tryReplay turns a failed obligation into a test on the real code.  Returns true if a failing input was reproduced.
func tryReplay(eng *Engine, r *FuncResult, o *Obligation, rf *replayFile) bool {
	if os.Getenv("VERIF_NOREPLAY") != "" || r.Body == "" {
		return false
	}
	kindOK := strings.HasPrefix(o.Kind, "nopanic") || o.Kind == "post" || o.Kind == "dec"
	if !kindOK {
		rf.Replay = "not attempted: obligations of kind " + o.Kind + " have no observable on a single call of the function"
		return false
	}
	fn := eng.funcs[r.Key]
	fc := eng.cs.Funcs[r.Key]
	if fn == nil || fc == nil || fn.Pkg == nil {
		return false
	}
	replayCount++
	if replayCount > replayBudget {
		rf.Replay = fmt.Sprintf("not attempted: replay budget of %d obligations per run used up", replayBudget)
		return false
	}
	dir, err := os.MkdirTemp("", "rlreplay")
	if err != nil {
		return false
	}
	defer os.RemoveAll(dir)
	var blocked []string
	var outcomes []string
	for attempt := 0; attempt < 3; attempt++ {
		rp := &replayer{eng: eng, fr: r, o: o, fn: fn, fc: fc, decl: map[string]bool{}, objs: map[int64]*rpValue{}, base: dir}
		for _, l := range strings.Split(r.Body, "\n") {
			if strings.HasPrefix(l, "(declare-const ") || strings.HasPrefix(l, "(declare-fun ") || strings.HasPrefix(l, "(define-fun ") {
				f := strings.Fields(l)
				if len(f) > 1 {
					rp.decl[f[1]] = true
				}
			}
		}
		rp.bounds = append(rp.bounds, blocked...)
		rp.small = attempt < 2
		// small shapes first: integer parameters and lengths in a small range (dropped on the last attempt)
		if attempt < 2 {
			for _, p := range fn.Params {
				n := "p!" + sanitize(p.Name())
				switch u := types.Unalias(p.Type()).Underlying().(type) {
				case *types.Basic:
					if u.Info()&types.IsInteger != 0 {
						rp.bounds = append(rp.bounds, fmt.Sprintf("(and (<= (- 2) %s) (<= %s 40))", n, n))
					} else if u.Info()&types.IsString != 0 {
						rp.bounds = append(rp.bounds, fmt.Sprintf("(and (<= 0 (Sq_Int.len %s)) (<= (Sq_Int.len %s) 6))", n, n))
					}
				case *types.Slice:
					if replayableBasic(p.Type()) {
						rp.bounds = append(rp.bounds, fmt.Sprintf("(and (<= 0 (Sq_Int.len %s)) (<= (Sq_Int.len %s) 6))", n, n))
					}
				}
			}
		}
		vals := map[string]*rpValue{}
		fail := ""
		for _, p := range fn.Params {
			v, why := rp.valueOf("p!"+sanitize(p.Name()), p.Type(), 0)
			if v == nil {
				fail = why
				break
			}
			vals[p.Name()] = v
		}
		if fail != "" {
			outcomes = append(outcomes, fmt.Sprintf("candidate %d: %s", attempt+1, fail))
			if strings.Contains(fail, "another package") {
				break
			}
			continue
		}
		src, why := rp.genTest(vals)
		if src == "" {
			rf.Replay = "not attempted: " + why
			return false
		}
		out, ok := rp.runTest(src)
		rf.ReplayTest = src
		rf.ReplayLog = firstN(out, 4000)
		if strings.Contains(out, "REPLAY-REPRODUCED") {
			rf.Replay = "reproduced on the real code: " + lineWith(out, "REPLAY-REPRODUCED")
			return true
		}
		switch {
		case !ok:
			outcomes = append(outcomes, fmt.Sprintf("candidate %d: the replay test did not build or run", attempt+1))
		case strings.Contains(out, "REPLAY-NOT-REPRODUCED"):
			outcomes = append(outcomes, fmt.Sprintf("candidate %d: %s", attempt+1, lineWith(out, "REPLAY-NOT-REPRODUCED")))
		default:
			outcomes = append(outcomes, fmt.Sprintf("candidate %d: no outcome", attempt+1))
		}
		// another shape next time: block this assignment of the integer pins
		var ints []string
		for _, pin := range rp.pins {
			if !strings.Contains(pin, ".at ") {
				ints = append(ints, pin)
			}
		}
		if len(ints) == 0 {
			break
		}
		blocked = append(blocked, "(not (and "+strings.Join(ints, " ")+"))")
	}
	rf.Replay = "no failing input found: " + strings.Join(outcomes, "; ")
	return false
}

func dropQuantified(smt string) string {
	var b strings.Builder
	for _, l := range strings.Split(smt, "\n") {
		if strings.Contains(l, "(forall") || strings.Contains(l, "(exists") {
			continue
		}
		b.WriteString(l)
		b.WriteString("\n")
	}
	return b.String()
}

func lineWith(out, key string) string {
	for _, l := range strings.Split(out, "\n") {
		if strings.Contains(l, key) {
			return strings.TrimSpace(l)
		}
	}
	return ""
}

// ---------------------------------------------------------------------------------------
// candidate model

func (rp *replayer) query(terms []string) (map[string]string, bool) {
	rp.steps++
	if rp.steps > 40 {
		return nil, false
	}
	var b strings.Builder
	b.WriteString("(set-option :produce-models true)\n(set-option :model.completion true)\n(set-logic ALL)\n")
	// relaxed theory: every quantified axiom is dropped (with them the solvers time out without a model);
	// what is left decides the shape of the input (integers, lengths, references), not its contents
	b.WriteString(dropQuantified(rp.fr.Prelude))
	b.WriteString(dropQuantified(rp.fr.Body))
	fmt.Fprintf(&b, "(assert %s)\n", goalTerm(rp.o, false))
	for _, p := range rp.bounds {
		fmt.Fprintf(&b, "(assert %s)\n", p)
	}
	for _, p := range rp.pins {
		fmt.Fprintf(&b, "(assert %s)\n", p)
	}
	b.WriteString("(check-sat)\n")
	for _, t := range terms {
		fmt.Fprintf(&b, "(get-value (%s))\n", t)
	}
	file := filepath.Join(rp.base, fmt.Sprintf("w%d.smt2", rp.steps))
	os.WriteFile(file, []byte(b.String()), 0o644)
	for _, s := range []Solver{solvers[1], solvers[0]} {
		out, _ := runSolverCtx(context.Background(), s, file, 4000, 9000)
		lines := strings.Split(out, "\n")
		if len(lines) == 0 {
			continue
		}
		first := strings.TrimSpace(lines[0])
		if first != "sat" && first != "unknown" {
			continue
		}
		res := map[string]string{}
		rest := strings.Join(lines[1:], "\n")
		ok := true
		for _, t := range terms {
			v, found := extractValue(rest, t)
			if !found {
				ok = false
				break
			}
			res[t] = v
		}
		if ok {
			return res, true
		}
	}
	return nil, false
}

var reNeg = regexp.MustCompile(`^\(-\s*(\d+)\)$`)

// extractValue finds "((term value))" in the solver output.
func extractValue(out, term string) (string, bool) {
	key := "((" + term + " "
	i := strings.Index(out, key)
	if i < 0 {
		return "", false
	}
	rest := out[i+len(key):]
	depth := 0
	for j := 0; j < len(rest); j++ {
		switch rest[j] {
		case '(':
			depth++
		case ')':
			if depth == 0 {
				return strings.TrimSpace(rest[:j]), true
			}
			depth--
		}
	}
	return "", false
}

func parseInt(v string) (int64, bool) {
	v = strings.TrimSpace(v)
	if m := reNeg.FindStringSubmatch(v); m != nil {
		n, err := strconv.ParseInt(m[1], 10, 64)
		return -n, err == nil
	}
	n, err := strconv.ParseInt(v, 10, 64)
	return n, err == nil
}

func (rp *replayer) pinInt(term string) (int64, bool) {
	res, ok := rp.query([]string{term})
	if !ok {
		return 0, false
	}
	n, ok := parseInt(res[term])
	if !ok {
		return 0, false
	}
	rp.pins = append(rp.pins, fmt.Sprintf("(= %s %s)", term, intLit(n)))
	return n, true
}

// valueOf reads the candidate value of an SMT term of Go type t (depth-limited).
func (rp *replayer) valueOf(term string, t types.Type, depth int) (*rpValue, string) {
	if depth > 4 {
		return &rpValue{kind: "unsupported", ty: t}, ""
	}
	switch u := types.Unalias(t).Underlying().(type) {
	case *types.Basic:
		switch {
		case u.Info()&types.IsBoolean != 0:
			res, ok := rp.query([]string{term})
			if !ok {
				return nil, "the solver gave no candidate model"
			}
			b := strings.TrimSpace(res[term]) == "true"
			rp.pins = append(rp.pins, fmt.Sprintf("(= %s %v)", term, b))
			return &rpValue{kind: "bool", b: b, ty: t}, ""
		case u.Info()&types.IsInteger != 0:
			if rp.small && depth > 0 {
				rp.bounds = append(rp.bounds, fmt.Sprintf("(and (<= (- 2) %s) (<= %s 40))", term, term))
			}
			n, ok := rp.pinInt(term)
			if !ok {
				return nil, "the solver gave no candidate model"
			}
			return &rpValue{kind: "int", i: n, ty: t}, ""
		case u.Info()&types.IsString != 0:
			return rp.seqOf(term, "Sq_Int", t)
		}
	case *types.Slice:
		if b, ok := types.Unalias(u.Elem()).Underlying().(*types.Basic); ok && b.Info()&types.IsInteger != 0 {
			return rp.seqOf(term, "Sq_Int", t)
		}
		return &rpValue{kind: "unsupported", ty: t}, ""
	case *types.Pointer:
		ref, ok := rp.pinInt(term)
		if !ok {
			return nil, "the solver gave no candidate model"
		}
		if ref == 0 {
			return &rpValue{kind: "ref", ref: 0, ty: t}, ""
		}
		if o, ok := rp.objs[ref]; ok {
			return o, ""
		}
		v := &rpValue{kind: "ref", ref: ref, ty: t, fields: map[string]*rpValue{}}
		rp.objs[ref] = v
		refTerm := intLit(ref)
		if st, ok := structOf(u.Elem()); ok {
			if n, isNamed := types.Unalias(u.Elem()).(*types.Named); !isNamed || n.Obj().Pkg() == nil || n.Obj().Pkg().Path() != rp.fn.Pkg.Pkg.Path() {
				return nil, "a parameter reaches a struct of another package (" + typeKey(u.Elem()) + "): its unexported fields cannot be set from a test"
			}
			for i := 0; i < st.NumFields(); i++ {
				f := st.Field(i)
				sym := "H!0!" + smtKey(fieldKey(u.Elem(), f.Name()))
				if !rp.decl[sym] {
					continue // never read by the function: leave the zero value
				}
				fv, why := rp.valueOf(fmt.Sprintf("(select %s %s)", sym, refTerm), f.Type(), depth+1)
				if fv == nil {
					return nil, why
				}
				v.fields[f.Name()] = fv
			}
			return v, ""
		}
		// pointer to a named non-struct (e.g. *Line = *[]rune): one cell
		sym := "H!0!" + smtKey(cellKey(u.Elem()))
		if rp.decl[sym] {
			cv, why := rp.valueOf(fmt.Sprintf("(select %s %s)", sym, refTerm), u.Elem(), depth+1)
			if cv == nil {
				return nil, why
			}
			v.fields["*"] = cv
		}
		return v, ""
	}
	return &rpValue{kind: "unsupported", ty: t}, ""
}

func (rp *replayer) seqOf(term, S string, t types.Type) (*rpValue, string) {
	lt := fmt.Sprintf("(%s.len %s)", S, term)
	if rp.small {
		rp.bounds = append(rp.bounds, fmt.Sprintf("(and (<= 0 %s) (<= %s 6))", lt, lt))
	} else {
		rp.bounds = append(rp.bounds, fmt.Sprintf("(and (<= 0 %s) (<= %s %d))", lt, lt, replayMaxSeq))
	}
	n, ok := rp.pinInt(lt)
	if !ok {
		return nil, "the solver gave no candidate model"
	}
	if n < 0 || n > replayMaxSeq {
		return nil, fmt.Sprintf("the candidate has a sequence of length %d (replay is limited to %d)", n, replayMaxSeq)
	}
	v := &rpValue{kind: "seq", ty: t}
	var terms []string
	for i := int64(0); i < n; i++ {
		terms = append(terms, fmt.Sprintf("(%s.at %s %d)", S, term, i))
	}
	if n > 0 {
		res, ok := rp.query(terms)
		if !ok {
			return nil, "the solver gave no candidate model"
		}
		for _, tm := range terms {
			x, ok := parseInt(res[tm])
			if !ok {
				return nil, "unreadable model value " + res[tm]
			}
			v.elems = append(v.elems, x)
			rp.pins = append(rp.pins, fmt.Sprintf("(= %s %s)", tm, intLit(x)))
		}
	}
	return v, ""
}

// ---------------------------------------------------------------------------------------
// test generation

func (rp *replayer) goType(t types.Type) string {
	return types.TypeString(t, func(p *types.Package) string {
		if p.Path() == rp.fn.Pkg.Pkg.Path() {
			return ""
		}
		return p.Name()
	})
}

// goValue renders a candidate value as Go source; objects are declared once in decls (by reference number).
func (rp *replayer) goValue(v *rpValue, decls *[]string, done map[int64]bool) (string, bool) {
	switch v.kind {
	case "int":
		return fmt.Sprintf("%s(%d)", rp.goType(v.ty), v.i), true
	case "bool":
		return fmt.Sprintf("%v", v.b), true
	case "seq":
		k := len(rp.seqs)
		rp.seqs = append(rp.seqs, v)
		if b, ok := types.Unalias(v.ty).Underlying().(*types.Basic); ok && b.Info()&types.IsString != 0 {
			return fmt.Sprintf("%s(rpBytes(rpSeqs[%d]))", rp.goType(v.ty), k), true
		}
		sl := types.Unalias(v.ty).Underlying().(*types.Slice)
		return fmt.Sprintf("rpMk[%s, %s](rpSeqs[%d])", rp.goType(sl.Elem()), rp.goType(v.ty), k), true
	case "ref":
		if v.ref == 0 {
			return "nil", true
		}
		name := fmt.Sprintf("obj%d", v.ref)
		if done[v.ref] {
			return name, true
		}
		done[v.ref] = true
		pt := types.Unalias(v.ty).Underlying().(*types.Pointer)
		*decls = append(*decls, fmt.Sprintf("\t%s := new(%s)", name, rp.goType(pt.Elem())))
		var fnames []string
		for f := range v.fields {
			fnames = append(fnames, f)
		}
		sort.Strings(fnames)
		for _, f := range fnames {
			fv := v.fields[f]
			if fv.kind == "unsupported" {
				continue
			}
			s, ok := rp.goValue(fv, decls, done)
			if !ok {
				return "", false
			}
			if f == "*" {
				*decls = append(*decls, fmt.Sprintf("\t*%s = %s", name, s))
			} else {
				*decls = append(*decls, fmt.Sprintf("\t%s.%s = %s", name, f, s))
			}
		}
		return name, true
	}
	return "", false
}

func (rp *replayer) alphabet() []int64 {
	seen := map[int64]bool{}
	var out []int64
	add := func(x int64) {
		if x >= 0 && x <= 0x10FFFF && !seen[x] && len(out) < 10 {
			seen[x] = true
			out = append(out, x)
		}
	}
	var visit func(f *ssa.Function, depth int)
	visit = func(f *ssa.Function, depth int) {
		if f == nil || f.Blocks == nil || depth > 1 {
			return
		}
		for _, b := range f.Blocks {
			for _, ins := range b.Instrs {
				var ops []*ssa.Value
				for _, op := range ins.Operands(ops) {
					c, ok := (*op).(*ssa.Const)
					if !ok || c.Value == nil {
						continue
					}
					if bt, ok := types.Unalias(c.Type()).Underlying().(*types.Basic); ok {
						switch {
						case bt.Info()&types.IsString != 0:
							str := constantString(c)
							for i := 0; i < len(str) && i < 6; i++ {
								add(int64(str[i]))
							}
						case bt.Kind() == types.Int32 || bt.Kind() == types.Uint8 || bt.Kind() == types.UntypedRune:
							if n, ok := constantInt(c); ok && n >= 9 && n < 0x110000 {
								add(n)
							}
						}
					}
				}
				if call, ok := ins.(ssa.CallInstruction); ok {
					if cal := call.Common().StaticCallee(); cal != nil && rp.eng.inModule(cal) {
						visit(cal, depth+1)
					}
				}
			}
		}
	}
	visit(rp.fn, 0)
	if len(out) > 7 {
		out = out[:7]
	}
	add('a')
	add(0xe9) // a two-byte rune: byte / rune confusions need one
	add(' ')
	return out
}

func constantString(c *ssa.Const) string {
	s := c.Value.ExactString()
	if u, err := strconv.Unquote(s); err == nil {
		return u
	}
	return ""
}

func constantInt(c *ssa.Const) (int64, bool) {
	n, err := strconv.ParseInt(c.Value.ExactString(), 10, 64)
	return n, err == nil
}

func (rp *replayer) genTest(vals map[string]*rpValue) (string, string) {
	fn := rp.fn
	var decls []string
	done := map[int64]bool{}
	var argNames []string
	for _, p := range fn.Params {
		v := vals[p.Name()]
		if v.kind == "unsupported" {
			return "", "parameter " + p.Name() + " has a type replay cannot build (" + typeKey(p.Type()) + ")"
		}
		s, ok := rp.goValue(v, &decls, done)
		if !ok {
			return "", "parameter " + p.Name() + ": candidate value not representable"
		}
		decls = append(decls, fmt.Sprintf("\tvar %s %s = %s", p.Name(), rp.goType(p.Type()), s))
		decls = append(decls, fmt.Sprintf("\t_ = %s", p.Name()))
		argNames = append(argNames, p.Name())
	}
	gc := &goCompiler{rp: rp, params: map[string]bool{}}
	for _, p := range fn.Params {
		gc.params[p.Name()] = true
	}
	var reqChecks []string
	for _, r := range rp.fc.Requires {
		code, err := gc.compile(r.E, map[string]string{})
		if err != nil {
			return "", "a requires clause is outside what replay can evaluate (" + err.Error() + "): " + r.Src
		}
		reqChecks = append(reqChecks, fmt.Sprintf("\tif !rpTruth(%s) {\n\t\treturn \"REQUIRES-FALSE: \" + %q\n\t}", code, r.Src))
	}
	nres := fn.Signature.Results().Len()
	var resNames []string
	for i := 0; i < nres; i++ {
		resNames = append(resNames, fmt.Sprintf("rpRes%d", i))
	}
	call := ""
	if fn.Signature.Recv() != nil {
		call = fmt.Sprintf("%s.%s(%s)", argNames[0], fn.Name(), rp.callArgs(argNames[1:]))
	} else {
		call = fmt.Sprintf("%s(%s)", fn.Name(), rp.callArgs(argNames))
	}
	if nres > 0 {
		call = strings.Join(resNames, ", ") + " := " + call
	}
	var pre, post []string
	fileLine := ""
	if i := strings.LastIndex(rp.o.Pos, ":"); i > 0 {
		fileLine = rp.o.Pos[:i]
	}
	for _, r := range resNames {
		post = append(post, fmt.Sprintf("\t_ = %s", r))
	}
	switch {
	case strings.HasPrefix(rp.o.Kind, "nopanic"):
		post = append(post, "\treturn \"NOT: the call returned without panicking\"")
	case rp.o.Kind == "dec":
		post = append(post, "\treturn \"NOT: the call returned\"")
	case rp.o.Kind == "post":
		var clause *Clause
		for i := range rp.fc.Ensures {
			if "ensures "+rp.fc.Ensures[i].Src == rp.o.Src {
				clause = &rp.fc.Ensures[i]
			}
		}
		if clause == nil {
			return "", "the violated clause was not found in the contract"
		}
		gc.results = resNames
		code, err := gc.compile(clause.E, map[string]string{})
		if err != nil {
			return "", "the violated clause is outside what replay can evaluate (" + err.Error() + ")"
		}
		pre = gc.olds
		post = append(post, fmt.Sprintf("\tif !rpTruth(%s) {\n\t\treturn \"REPRODUCED: the clause is false after the call: \" + %q\n\t}\n\treturn \"NOT: the clause holds after the call\"", code, clause.Src))
	}
	var b strings.Builder
	fmt.Fprintf(&b, "package %s\n\n", fn.Pkg.Pkg.Name())
	b.WriteString("// Generated by rlverify from the solver's candidate counterexample for obligation\n")
	fmt.Fprintf(&b, "//   %s (%s)\n//   %s\n", rp.o.Name, rp.o.Pos, strings.ReplaceAll(rp.o.Src, "\n", " "))
	b.WriteString("// The shape of the input (integers, lengths, object graph) is the solver's; when the candidate's own\n// sequence contents do not fail, contents over the literals of the function's source are tried.\n\n")
	b.WriteString("import (\n\t\"fmt\"\n\t\"reflect\"\n\t\"runtime\"\n\t\"strings\"\n\t\"testing\"\n\t\"time\"\n\t\"unicode\"\n\t\"unicode/utf8\"\n)\n\nvar _ = unicode.IsSpace\nvar _ = utf8.ValidRune\n\n")
	b.WriteString(replayHelpers)
	// candidate contents and alphabet
	b.WriteString("var rpCand = [][]int64{")
	for _, sv := range rp.seqs {
		var parts []string
		for _, e := range sv.elems {
			parts = append(parts, fmt.Sprint(e))
		}
		fmt.Fprintf(&b, "{%s}, ", strings.Join(parts, ", "))
	}
	b.WriteString("}\n")
	var al []string
	for _, a := range rp.alphabet() {
		al = append(al, fmt.Sprint(a))
	}
	fmt.Fprintf(&b, "var rpAlphabet = []int64{%s}\n\n", strings.Join(al, ", "))
	enumerate := "true"
	if rp.o.Kind == "dec" {
		enumerate = "false"
	}
	fmt.Fprintf(&b, "func TestVerifReplay(t *testing.T) { rpDrive(%s, %v) }\n\n", enumerate, rp.o.Kind == "dec")
	b.WriteString("func rpBody(rpSeqs [][]int64) (outcome string) {\n")
	fmt.Fprintf(&b, "\tdefer func() {\n\t\tif r := recover(); r != nil {\n\t\t\tat := rpPanicAt(%q)\n", fileLine)
	if strings.HasPrefix(rp.o.Kind, "nopanic") {
		b.WriteString("\t\t\tif at {\n\t\t\t\toutcome = fmt.Sprint(\"REPRODUCED: panic at the obligation's source line: \", r)\n\t\t\t} else {\n\t\t\t\toutcome = fmt.Sprint(\"NOT: the call panicked, but elsewhere: \", r)\n\t\t\t}\n")
	} else {
		b.WriteString("\t\t\t_ = at\n\t\t\toutcome = fmt.Sprint(\"NOT: the call panicked: \", r)\n")
	}
	b.WriteString("\t\t}\n\t}()\n")
	b.WriteString(strings.Join(decls, "\n") + "\n")
	b.WriteString(strings.Join(reqChecks, "\n") + "\n")
	b.WriteString(strings.Join(pre, "\n") + "\n")
	fmt.Fprintf(&b, "\t%s\n", call)
	b.WriteString(strings.Join(post, "\n") + "\n")
	b.WriteString("}\n")
	return b.String(), ""
}

func (rp *replayer) callArgs(names []string) string {
	sig := rp.fn.Signature
	if sig.Variadic() && len(names) > 0 {
		names = append([]string(nil), names...)
		names[len(names)-1] += "..."
	}
	return strings.Join(names, ", ")
}

func (rp *replayer) runTest(src string) (string, bool) {
	pkgDir := rp.eng.pkgDirs[rp.fn.Pkg.Pkg.Path()]
	if pkgDir == "" {
		return "package directory unknown", false
	}
	testFile := filepath.Join(rp.base, "zz_verif_replay_test.go")
	os.WriteFile(testFile, []byte(src), 0o644)
	ov := map[string]map[string]string{"Replace": {filepath.Join(pkgDir, "zz_verif_replay_test.go"): testFile}}
	data, _ := json.Marshal(ov)
	ovFile := filepath.Join(rp.base, "overlay.json")
	os.WriteFile(ovFile, data, 0o644)
	ctx, cancel := context.WithTimeout(context.Background(), 120*time.Second)
	defer cancel()
	cmd := exec.CommandContext(ctx, "go", "test", "-overlay", ovFile, "-vet=off", "-count=1", "-timeout", "60s", "-v", "-run", "^TestVerifReplay$", "./")
	cmd.Dir = pkgDir
	cmd.Env = append(os.Environ(), "GOFLAGS=-mod=mod", "GOPROXY=off")
	var out bytes.Buffer
	cmd.Stdout = &out
	cmd.Stderr = &out
	err := cmd.Run()
	s := strings.Map(func(r rune) rune {
		if r == 0x1b {
			return -1
		}
		return r
	}, out.String())
	return s, err == nil || strings.Contains(s, "REPLAY-")
}

const replayHelpers = `
func rpTruth(x any) bool { b, ok := x.(bool); return ok && b }

type rpNum interface {
	~int | ~int8 | ~int16 | ~int32 | ~int64 | ~uint | ~uint8 | ~uint16 | ~uint32 | ~uint64
}

func rpMk[E rpNum, S ~[]E](s []int64) S {
	out := make(S, len(s))
	for i, x := range s {
		out[i] = E(x)
	}
	return out
}

func rpBytes(s []int64) []byte {
	out := make([]byte, len(s))
	for i, x := range s {
		out[i] = byte(x)
	}
	return out
}

func rpShow(seqs [][]int64) string {
	var parts []string
	for _, s := range seqs {
		rs := make([]rune, len(s))
		for i, x := range s {
			rs[i] = rune(x)
		}
		parts = append(parts, fmt.Sprintf("%q", string(rs)))
	}
	return "sequence contents " + strings.Join(parts, ", ")
}

// rpDrive runs the candidate, then (enumerate) the same shape with other sequence contents.
func rpDrive(enumerate, hang bool) {
	run := func(seqs [][]int64, limit time.Duration) (string, bool) {
		done := make(chan string, 1)
		go func() { done <- rpBody(seqs) }()
		select {
		case o := <-done:
			return o, true
		case <-time.After(limit):
			return "", false
		}
	}
	o, returned := run(rpCand, 3*time.Second)
	if !returned {
		if hang {
			fmt.Println("REPLAY-REPRODUCED: the call is still running after 3 s;", rpShow(rpCand))
		} else {
			fmt.Println("REPLAY-NOT-REPRODUCED: the call did not return within 3 s")
		}
		return
	}
	if strings.HasPrefix(o, "REPRODUCED") {
		fmt.Println("REPLAY-"+o+";", rpShow(rpCand))
		return
	}
	first := o
	if !enumerate || len(rpCand) == 0 {
		fmt.Println("REPLAY-NOT-REPRODUCED: " + strings.TrimPrefix(first, "NOT: "))
		return
	}
	total := 0
	for _, s := range rpCand {
		total += len(s)
	}
	deadline := time.Now().Add(20 * time.Second)
	tried := 0
	try := func(seqs [][]int64) bool {
		tried++
		o, returned := run(seqs, 2*time.Second)
		if !returned {
			return false
		}
		if strings.HasPrefix(o, "REPRODUCED") {
			fmt.Println("REPLAY-"+o+";", rpShow(seqs), fmt.Sprintf("(contents found after %d variations of the solver's candidate)", tried))
			return true
		}
		return false
	}
	n := len(rpAlphabet)
	if n == 0 || total == 0 {
		fmt.Println("REPLAY-NOT-REPRODUCED: " + strings.TrimPrefix(first, "NOT: "))
		return
	}
	idx := make([]int, total)
	build := func() [][]int64 {
		out := make([][]int64, len(rpCand))
		k := 0
		for i, s := range rpCand {
			out[i] = make([]int64, len(s))
			for j := range s {
				out[i][j] = rpAlphabet[idx[k]]
				k++
			}
		}
		return out
	}
	combos := 1.0
	for i := 0; i < total; i++ {
		combos *= float64(n)
	}
	if combos <= 60000 {
		for {
			if try(build()) {
				return
			}
			k := 0
			for k < total {
				idx[k]++
				if idx[k] < n {
					break
				}
				idx[k] = 0
				k++
			}
			if k == total || time.Now().After(deadline) {
				break
			}
		}
	} else {
		seed := uint64(88172645463325252)
		for i := 0; i < 60000 && time.Now().Before(deadline); i++ {
			for k := range idx {
				seed ^= seed << 13
				seed ^= seed >> 7
				seed ^= seed << 17
				idx[k] = int(seed % uint64(n))
			}
			if try(build()) {
				return
			}
		}
	}
	fmt.Println("REPLAY-NOT-REPRODUCED: " + strings.TrimPrefix(first, "NOT: ") + fmt.Sprintf(" (nor with %d other contents of the same shape)", tried))
}

func rpInt(x any) (int64, bool) {
	v := reflect.ValueOf(x)
	switch v.Kind() {
	case reflect.Int, reflect.Int8, reflect.Int16, reflect.Int32, reflect.Int64:
		return v.Int(), true
	case reflect.Uint, reflect.Uint8, reflect.Uint16, reflect.Uint32, reflect.Uint64:
		return int64(v.Uint()), true
	}
	return 0, false
}

// rpSeq views strings and integer slices as []int64 (strings as bytes).
func rpSeq(x any) ([]int64, bool) {
	if x == nil {
		return nil, true
	}
	v := reflect.ValueOf(x)
	switch v.Kind() {
	case reflect.String:
		s := v.String()
		out := make([]int64, len(s))
		for i := 0; i < len(s); i++ {
			out[i] = int64(s[i])
		}
		return out, true
	case reflect.Slice:
		out := make([]int64, v.Len())
		for i := 0; i < v.Len(); i++ {
			n, ok := rpInt(v.Index(i).Interface())
			if !ok {
				return nil, false
			}
			out[i] = n
		}
		return out, true
	}
	return nil, false
}

// rpB marks a sequence of bytes (string / []byte contents) as opposed to runes or plain integers: the two
// are decoded differently by runes().
type rpB []int64

func rpIsBytes(x any) bool {
	if x == nil {
		return false
	}
	if _, ok := x.(rpB); ok {
		return true
	}
	v := reflect.ValueOf(x)
	switch v.Kind() {
	case reflect.String:
		return true
	case reflect.Slice:
		return v.Type().Elem().Kind() == reflect.Uint8
	}
	return false
}

func rpKeep(like any, s []int64) any {
	if rpIsBytes(like) {
		return rpB(s)
	}
	return s
}

func rpIsNil(x any) bool {
	if x == nil {
		return true
	}
	v := reflect.ValueOf(x)
	switch v.Kind() {
	case reflect.Ptr, reflect.Map, reflect.Slice, reflect.Func, reflect.Interface, reflect.Chan:
		return v.IsNil()
	}
	return false
}

func rpEq(a, b any) any {
	if x, ok := rpInt(a); ok {
		if y, ok := rpInt(b); ok {
			return x == y
		}
	}
	if x, ok := a.(bool); ok {
		if y, ok := b.(bool); ok {
			return x == y
		}
	}
	if rpIsNil(a) || rpIsNil(b) {
		if rpIsNil(a) && rpIsNil(b) {
			return true
		}
		// nil slice == empty sequence in the contract language
		x, okx := rpSeq(a)
		y, oky := rpSeq(b)
		if okx && oky {
			return len(x) == 0 && len(y) == 0
		}
		return false
	}
	x, okx := rpSeq(a)
	y, oky := rpSeq(b)
	if okx && oky {
		if len(x) != len(y) {
			return false
		}
		for i := range x {
			if x[i] != y[i] {
				return false
			}
		}
		return true
	}
	return reflect.DeepEqual(a, b)
}

func rpCmp(op string, a, b any) any {
	x, ok1 := rpInt(a)
	y, ok2 := rpInt(b)
	if !ok1 || !ok2 {
		panic("rp: comparison of non-integers")
	}
	switch op {
	case "<":
		return x < y
	case "<=":
		return x <= y
	case ">":
		return x > y
	}
	return x >= y
}

func rpArith(op string, a, b any) any {
	x, ok1 := rpInt(a)
	y, ok2 := rpInt(b)
	if ok1 && ok2 {
		switch op {
		case "+":
			return x + y
		case "-":
			return x - y
		case "*":
			return x * y
		case "/":
			return x / y
		case "%":
			return x % y
		}
	}
	if op == "+" {
		s, oks := rpSeq(a)
		t, okt := rpSeq(b)
		if oks && okt {
			return rpKeep(a, append(append([]int64{}, s...), t...))
		}
	}
	panic("rp: arithmetic on unsupported operands")
}

func rpI(x any) int64 { n, _ := rpInt(x); return n }

func rpClean(a any) any {
	s, _ := rpSeq(rpRunes(a))
	for _, x := range s {
		if !utf8.ValidRune(rune(x)) {
			return false
		}
	}
	return true
}

func rpSan(a any) any {
	s, _ := rpSeq(rpRunes(a))
	out := make([]int64, len(s))
	for i, x := range s {
		if utf8.ValidRune(rune(x)) {
			out[i] = x
		} else {
			out[i] = 0xFFFD
		}
	}
	return out
}

// bol / eol / stripz: the functions their axioms in the contract files characterise
func rpBol(l, b any) any {
	s, _ := rpSeq(l)
	n := rpI(b)
	if n <= 0 {
		return int64(0)
	}
	if n > int64(len(s)) {
		n = int64(len(s))
	}
	for k := n - 1; k >= 0; k-- {
		if s[k] == 10 {
			return k + 1
		}
	}
	return int64(0)
}

func rpEol(l, e any) any {
	s, _ := rpSeq(l)
	n := rpI(e)
	if n >= int64(len(s)) {
		return n
	}
	if n < 0 {
		n = 0
	}
	for k := n; k < int64(len(s)); k++ {
		if s[k] == 10 {
			return k
		}
	}
	return int64(len(s))
}

func rpStripz(a any) any {
	s, _ := rpSeq(a)
	s = append([]int64{}, s...)
	for len(s) > 1 && s[len(s)-1] == 0 {
		s = s[:len(s)-1]
	}
	return s
}

func rpLen(a any) any { s, ok := rpSeq(a); if !ok { return int64(reflect.ValueOf(a).Len()) }; return int64(len(s)) }

func rpIdx(a, i any) any {
	n, _ := rpInt(i)
	if s, ok := rpSeq(a); ok {
		return s[n]
	}
	return reflect.ValueOf(a).Index(int(n)).Interface()
}

func rpSlice(a, lo, hi any) any {
	s, ok := rpSeq(a)
	if !ok {
		panic("rp: slice of a non-sequence")
	}
	l, h := int64(0), int64(len(s))
	if lo != nil {
		l, _ = rpInt(lo)
	}
	if hi != nil {
		h, _ = rpInt(hi)
	}
	return rpKeep(a, append([]int64{}, s[l:h]...))
}

func rpSnap(a any) any {
	if s, ok := rpSeq(a); ok && !rpIsNil(a) {
		return rpKeep(a, append([]int64{}, s...))
	}
	return a
}

func rpQuant(all bool, lo, hi any, body func(i any) any) any {
	l, _ := rpInt(lo)
	h, _ := rpInt(hi)
	for i := l; i < h; i++ {
		if rpTruth(body(i)) != all {
			return !all
		}
	}
	return all
}

func rpRunes(a any) any {
	if rpIsBytes(a) {
		bs, _ := rpSeq(a)
		b := make([]byte, len(bs))
		for i, x := range bs {
			b[i] = byte(x)
		}
		out := []int64{}
		for _, r := range string(b) {
			out = append(out, int64(r))
		}
		return out
	}
	s, _ := rpSeq(a)
	return s
}

func rpStr(a any) any {
	if rpIsBytes(a) {
		bs, _ := rpSeq(a)
		return rpB(bs)
	}
	s, _ := rpSeq(a)
	rs := make([]rune, len(s))
	for i, x := range s {
		rs[i] = rune(x)
	}
	return string(rs)
}

func rpGoStr(a any) string {
	x := rpStr(a)
	if s, ok := x.(string); ok {
		return s
	}
	bs, _ := rpSeq(x)
	b := make([]byte, len(bs))
	for i, v := range bs {
		b[i] = byte(v)
	}
	return string(b)
}

func rpPanicAt(fileLine string) bool {
	if fileLine == "" {
		return false
	}
	pcs := make([]uintptr, 64)
	n := runtime.Callers(3, pcs)
	frames := runtime.CallersFrames(pcs[:n])
	for {
		f, more := frames.Next()
		if strings.HasSuffix(fmt.Sprintf("%s:%d", f.File, f.Line), fileLine) {
			return true
		}
		if !more {
			break
		}
	}
	return false
}

`

// ---------------------------------------------------------------------------------------
// contract expression -> Go (dynamically typed through the rp* helpers)

type goCompiler struct {
	staticTypes map[string]types.Type
	rp      *replayer
	params  map[string]bool
	results []string
	olds    []string
	nOld    int
	depth   int
}

func (g *goCompiler) compile(e Expr, env map[string]string) (string, error) {
	g.depth++
	defer func() { g.depth-- }()
	if g.depth > 60 {
		return "", fmt.Errorf("expression too deep")
	}
	switch x := e.(type) {
	case EInt:
		return fmt.Sprintf("any(int64(%d))", x.V), nil
	case EBool:
		return fmt.Sprintf("any(%v)", x.V), nil
	case EStr:
		return fmt.Sprintf("any(%q)", x.V), nil
	case ENil:
		return "any(nil)", nil
	case EIdent:
		if v, ok := env[x.Name]; ok {
			if strings.HasPrefix(v, "\x00") {
				return "any(" + v[1:] + ")", nil
			}
			return v, nil
		}
		if strings.HasSuffix(x.Name, "$0") && g.params[strings.TrimSuffix(x.Name, "$0")] {
			return g.old("any(" + strings.TrimSuffix(x.Name, "$0") + ")"), nil
		}
		if g.params[x.Name] {
			return "any(" + x.Name + ")", nil
		}
		if x.Name == "result" && len(g.results) >= 1 {
			return "any(" + g.results[0] + ")", nil
		}
		if strings.HasPrefix(x.Name, "result") {
			if n, err := strconv.Atoi(x.Name[6:]); err == nil && n < len(g.results) {
				return "any(" + g.results[n] + ")", nil
			}
		}
		// named results
		res := g.rp.fn.Signature.Results()
		for i := 0; i < res.Len(); i++ {
			if res.At(i).Name() == x.Name && i < len(g.results) {
				return "any(" + g.results[i] + ")", nil
			}
		}
		return "", fmt.Errorf("identifier %s", x.Name)
	case EOld:
		inner, err := g.compile(x.X, env)
		if err != nil {
			return "", err
		}
		if len(env) > 0 {
			return "", fmt.Errorf("old() under a binder")
		}
		return g.old(inner), nil
	case EUn:
		a, err := g.static(x.X, env)
		if x.Op == "*" && err == nil {
			return "any(*" + a + ")", nil
		}
		v, err := g.compile(x.X, env)
		if err != nil {
			return "", err
		}
		switch x.Op {
		case "!":
			return "any(!rpTruth(" + v + "))", nil
		case "-":
			return "rpArith(\"-\", any(int64(0)), " + v + ")", nil
		}
		return "", fmt.Errorf("unary %s", x.Op)
	case EBin:
		a, err := g.compile(x.X, env)
		if err != nil {
			return "", err
		}
		b, err := g.compile(x.Y, env)
		if err != nil {
			return "", err
		}
		switch x.Op {
		case "&&":
			return fmt.Sprintf("any(rpTruth(%s) && rpTruth(%s))", a, b), nil
		case "||":
			return fmt.Sprintf("any(rpTruth(%s) || rpTruth(%s))", a, b), nil
		case "==>":
			return fmt.Sprintf("any(!rpTruth(%s) || rpTruth(%s))", a, b), nil
		case "<==>":
			return fmt.Sprintf("any(rpTruth(%s) == rpTruth(%s))", a, b), nil
		case "==":
			return fmt.Sprintf("rpEq(%s, %s)", a, b), nil
		case "!=":
			return fmt.Sprintf("any(!rpTruth(rpEq(%s, %s)))", a, b), nil
		case "<", "<=", ">", ">=":
			return fmt.Sprintf("rpCmp(%q, %s, %s)", x.Op, a, b), nil
		case "+", "-", "*", "/", "%":
			return fmt.Sprintf("rpArith(%q, %s, %s)", x.Op, a, b), nil
		}
		return "", fmt.Errorf("operator %s", x.Op)
	case ESel, EIdx:
		if s, err := g.static(e, env); err == nil {
			return "any(" + s + ")", nil
		}
		if ix, ok := e.(EIdx); ok {
			a, err := g.compile(ix.X, env)
			if err != nil {
				return "", err
			}
			i, err := g.compile(ix.I, env)
			if err != nil {
				return "", err
			}
			return fmt.Sprintf("rpIdx(%s, %s)", a, i), nil
		}
		return "", fmt.Errorf("field selection on a computed value")
	case ESlice:
		a, err := g.compile(x.X, env)
		if err != nil {
			return "", err
		}
		lo, hi := "nil", "nil"
		if x.Lo != nil {
			if lo, err = g.compile(x.Lo, env); err != nil {
				return "", err
			}
		}
		if x.Hi != nil {
			if hi, err = g.compile(x.Hi, env); err != nil {
				return "", err
			}
		}
		return fmt.Sprintf("rpSlice(%s, %s, %s)", a, lo, hi), nil
	case EQuant:
		lo, err := g.compile(x.Lo, env)
		if err != nil {
			return "", err
		}
		hi, err := g.compile(x.Hi, env)
		if err != nil {
			return "", err
		}
		env2 := map[string]string{}
		for k, v := range env {
			env2[k] = v
		}
		vn := fmt.Sprintf("rpq%d_%s", g.depth, x.Var)
		env2[x.Var] = vn
		body, err := g.compile(x.Body, env2)
		if err != nil {
			return "", err
		}
		return fmt.Sprintf("rpQuant(%v, %s, %s, func(%s any) any { return %s })", x.All, lo, hi, vn, body), nil
	case ECall:
		return g.call(x, env)
	}
	return "", fmt.Errorf("expression form %T", e)
}

// static renders an access path rooted at a parameter or result as plain Go (p.f, *p, p.f[i]); it follows the
// Go types so that a field the test's package cannot name (unexported, other package) is rejected.
func (g *goCompiler) static(e Expr, env map[string]string) (string, error) {
	code, _, err := g.staticT(e, env)
	return code, err
}

func (g *goCompiler) rootType(name string) types.Type {
	for _, p := range g.rp.fn.Params {
		if p.Name() == name {
			return p.Type()
		}
	}
	return nil
}

func (g *goCompiler) staticT(e Expr, env map[string]string) (string, types.Type, error) {
	switch x := e.(type) {
	case EIdent:
		if v, bound := env[x.Name]; bound {
			if strings.HasPrefix(v, "\x00") {
				return v[1:], g.staticTypes[v[1:]], nil
			}
			return "", nil, fmt.Errorf("bound variable")
		}
		if g.params[x.Name] {
			return x.Name, g.rootType(x.Name), nil
		}
		res := g.rp.fn.Signature.Results()
		idx := -1
		if x.Name == "result" && len(g.results) >= 1 {
			idx = 0
		} else if strings.HasPrefix(x.Name, "result") {
			if n, err := strconv.Atoi(x.Name[6:]); err == nil && n < len(g.results) {
				idx = n
			}
		}
		if idx >= 0 && idx < res.Len() {
			return g.results[idx], res.At(idx).Type(), nil
		}
		return "", nil, fmt.Errorf("not a parameter")
	case ESel:
		a, t, err := g.staticT(x.X, env)
		if err != nil {
			return "", nil, err
		}
		if t == nil {
			return "", nil, fmt.Errorf("type of %s unknown", a)
		}
		base := t
		if pt, ok := types.Unalias(base).Underlying().(*types.Pointer); ok {
			base = pt.Elem()
		}
		st, ok := structOf(base)
		if !ok {
			return "", nil, fmt.Errorf("%s is not a struct", a)
		}
		for i := 0; i < st.NumFields(); i++ {
			f := st.Field(i)
			if f.Name() == x.Name {
				if !f.Exported() && (f.Pkg() == nil || f.Pkg().Path() != g.rp.fn.Pkg.Pkg.Path()) {
					return "", nil, fmt.Errorf("field %s.%s is not accessible from package %s", typeKey(base), x.Name, g.rp.fn.Pkg.Pkg.Name())
				}
				return a + "." + x.Name, f.Type(), nil
			}
		}
		return "", nil, fmt.Errorf("no field %s", x.Name)
	case EUn:
		if x.Op == "*" {
			a, t, err := g.staticT(x.X, env)
			if err != nil {
				return "", nil, err
			}
			var et types.Type
			if t != nil {
				if pt, ok := types.Unalias(t).Underlying().(*types.Pointer); ok {
					et = pt.Elem()
				}
			}
			return "(*" + a + ")", et, nil
		}
	case EIdx:
		a, t, err := g.staticT(x.X, env)
		if err != nil {
			return "", nil, err
		}
		i, err := g.compile(x.I, env)
		if err != nil {
			return "", nil, err
		}
		var et types.Type
		if t != nil {
			switch u := types.Unalias(t).Underlying().(type) {
			case *types.Slice:
				et = u.Elem()
			case *types.Basic:
				et = types.Typ[types.Uint8]
			}
		}
		return fmt.Sprintf("%s[func() int { n, _ := rpInt(%s); return int(n) }()]", a, i), et, nil
	}
	return "", nil, fmt.Errorf("not an access path")
}

func (g *goCompiler) old(code string) string {
	g.nOld++
	name := fmt.Sprintf("rpOld%d", g.nOld)
	g.olds = append(g.olds, fmt.Sprintf("\t%s := rpSnap(%s)", name, code))
	return name
}

func (g *goCompiler) call(x ECall, env map[string]string) (string, error) {
	var args []string
	argv := func() error {
		for _, a := range x.Args {
			s, err := g.compile(a, env)
			if err != nil {
				return err
			}
			args = append(args, s)
		}
		return nil
	}
	switch x.Fun {
	case "len":
		if err := argv(); err != nil {
			return "", err
		}
		return "rpLen(" + args[0] + ")", nil
	case "cat":
		if err := argv(); err != nil {
			return "", err
		}
		return fmt.Sprintf("rpArith(\"+\", %s, %s)", args[0], args[1]), nil
	case "unit":
		if err := argv(); err != nil {
			return "", err
		}
		return fmt.Sprintf("any([]int64{func() int64 { n, _ := rpInt(%s); return n }()})", args[0]), nil
	case "emptyrunes", "emptystr":
		return "any([]int64{})", nil
	case "runes":
		if err := argv(); err != nil {
			return "", err
		}
		return "rpRunes(" + args[0] + ")", nil
	case "str":
		if err := argv(); err != nil {
			return "", err
		}
		return "rpStr(" + args[0] + ")", nil
	case "bytes":
		if err := argv(); err != nil {
			return "", err
		}
		return args[0], nil
	case "take":
		if err := argv(); err != nil {
			return "", err
		}
		return fmt.Sprintf("rpSlice(%s, nil, %s)", args[0], args[1]), nil
	case "drop":
		if err := argv(); err != nil {
			return "", err
		}
		return fmt.Sprintf("rpSlice(%s, %s, nil)", args[0], args[1]), nil
	case "ite":
		if err := argv(); err != nil {
			return "", err
		}
		return fmt.Sprintf("func() any { if rpTruth(%s) { return %s }; return %s }()", args[0], args[1], args[2]), nil
	case "min", "max":
		if err := argv(); err != nil {
			return "", err
		}
		op := "<="
		if x.Fun == "max" {
			op = ">="
		}
		return fmt.Sprintf("func() any { if rpTruth(rpCmp(%q, %s, %s)) { return %s }; return %s }()", op, args[0], args[1], args[0], args[1]), nil
	case "emod":
		if err := argv(); err != nil {
			return "", err
		}
		return fmt.Sprintf("func() any { a, _ := rpInt(%s); b, _ := rpInt(%s); m := a %% b; if m < 0 { if b < 0 { m -= b } else { m += b } }; return m }()", args[0], args[1]), nil
	case "ediv":
		if err := argv(); err != nil {
			return "", err
		}
		return fmt.Sprintf("func() any { a, _ := rpInt(%s); b, _ := rpInt(%s); m := a %% b; if m < 0 { if b < 0 { m -= b } else { m += b } }; return (a - m) / b }()", args[0], args[1]), nil
	}
	// library specs that name a standard-library function: call that function
	if lib, ok := map[string]string{
		"uspace": "any(unicode.IsSpace(rune(rpI(%s))))", "ucontrol": "any(unicode.IsControl(rune(rpI(%s))))",
		"uprint": "any(unicode.IsPrint(rune(rpI(%s))))", "upunct": "any(unicode.IsPunct(rune(rpI(%s))))",
		"uupper": "any(int64(unicode.ToUpper(rune(rpI(%s)))))", "strlower": "any(strings.ToLower(rpGoStr(%s)))",
		"strtrim": "any(strings.TrimSpace(rpGoStr(%s)))", "validrune": "any(utf8.ValidRune(rune(rpI(%s))))",
		"clean": "rpClean(%s)", "san": "rpSan(%s)",
	}[x.Fun]; ok && len(x.Args) == 1 {
		if err := argv(); err != nil {
			return "", err
		}
		return fmt.Sprintf(lib, args[0]), nil
	}
	// specs given by characteristic axioms that determine them: their executable reading
	switch {
	case (x.Fun == "bol" || x.Fun == "eol" || strings.HasSuffix(x.Fun, ".bol") || strings.HasSuffix(x.Fun, ".eol")) && len(x.Args) == 2:
		if err := argv(); err != nil {
			return "", err
		}
		f := "rpBol"
		if strings.HasSuffix(x.Fun, "eol") {
			f = "rpEol"
		}
		return fmt.Sprintf("%s(%s, %s)", f, args[0], args[1]), nil
	case (x.Fun == "stripz" || strings.HasSuffix(x.Fun, ".stripz")) && len(x.Args) == 1:
		if err := argv(); err != nil {
			return "", err
		}
		return fmt.Sprintf("rpStripz(%s)", args[0]), nil
	}
	// user spec with a body: expand
	sd := g.rp.eng.cs.LookupSpec(g.rp.fc.PkgPath, x.Fun)
	if sd == nil || sd.Body == nil || sd.Ghost {
		return "", fmt.Errorf("%s is not executable (uninterpreted, ghost or library spec)", x.Fun)
	}
	if len(sd.Params) != len(x.Args) {
		return "", fmt.Errorf("%s: arity", x.Fun)
	}
	if err := argv(); err != nil {
		return "", err
	}
	env2 := map[string]string{}
	var ps []string
	var dynArgs []string
	for i, p := range sd.Params {
		// an argument that is an access path rooted at a parameter stays a Go path inside the body (x.f works)
		if path, pt, err := g.staticT(x.Args[i], env); err == nil {
			env2[p.Name] = "\x00" + path
			if g.staticTypes == nil {
				g.staticTypes = map[string]types.Type{}
			}
			g.staticTypes[path] = pt
			continue
		}
		n := fmt.Sprintf("rps%d_%s", g.depth, p.Name)
		env2[p.Name] = n
		ps = append(ps, n+" any")
		dynArgs = append(dynArgs, args[i])
	}
	args = dynArgs
	// static paths through spec parameters are not available: the body sees dynamic values only
	saved := g.params
	g.params = map[string]bool{}
	body, err := g.compile(sd.Body, env2)
	g.params = saved
	if err != nil {
		return "", fmt.Errorf("%s: %v", x.Fun, err)
	}
	return fmt.Sprintf("func(%s) any { return %s }(%s)", strings.Join(ps, ", "), body, strings.Join(args, ", ")), nil
}
