package main

import (
	"fmt"
	"go/types"
	"sort"
	"strings"

	"golang.org/x/tools/go/ssa"
)

type FuncResult struct {
	Func    string
	Key     string
	Obls    []*Obligation
	Abstr   []string
	Errs    []string
	Callees map[string]string
	Prelude string
	Body    string
	Props   []string
	Trusted bool
	NLoops  int
	Specs   []string
}

// contractParamDummies gives every parameter of the contract's function a symbolic name
// (used for type-only evaluation of assigns clauses).
func (c *FnCtx) contractParamDummies(fc *FuncContract, fn *ssa.Function) (map[string]Term, error) {
	vars := map[string]Term{}
	if fn == nil {
		fn = c.eng.funcs[fc.Key]
	}
	if fn != nil {
		for i, p := range fn.Params {
			vars[p.Name()] = Term{"dummy!" + p.Name(), c.ss.SortOf(p.Type()), p.Type()}
			vars[fmt.Sprintf("p%d", i)] = vars[p.Name()]
		}
		return vars, nil
	}
	sig, recv := c.eng.sigOfKey(fc.Key)
	if sig == nil {
		return nil, fmt.Errorf("cannot find signature of %s", fc.Key)
	}
	if recv != nil {
		vars["self"] = Term{"dummy!self", SInt, recv}
	}
	for i := 0; i < sig.Params().Len(); i++ {
		p := sig.Params().At(i)
		n := p.Name()
		if n == "" || n == "_" {
			n = fmt.Sprintf("p%d", i)
		}
		vars[n] = Term{"dummy!" + n, c.ss.SortOf(p.Type()), p.Type()}
		vars[fmt.Sprintf("p%d", i)] = vars[n]
	}
	return vars, nil
}

// sigOfKey finds the signature for an interface-method key "(pkg.Iface).Method" or a named func type "pkg.T".
func (e *Engine) sigOfKey(key string) (*types.Signature, types.Type) {
	if strings.HasPrefix(key, "param:") {
		rest := key[6:]
		i := strings.LastIndex(rest, ".")
		if i < 0 {
			return nil, nil
		}
		if fn := e.funcs[rest[:i]]; fn != nil {
			for _, p := range fn.Params {
				if p.Name() == rest[i+1:] {
					if sig, ok := p.Type().Underlying().(*types.Signature); ok {
						return sig, nil
					}
				}
			}
		}
		return nil, nil
	}
	if strings.HasPrefix(key, "field:") {
		parts := strings.Split(key[6:], ".")
		if len(parts) != 3 {
			return nil, nil
		}
		p := e.byName[parts[0]]
		if p == nil {
			return nil, nil
		}
		obj := p.Scope().Lookup(parts[1])
		if obj == nil {
			return nil, nil
		}
		if st, ok := obj.Type().Underlying().(*types.Struct); ok {
			for i := 0; i < st.NumFields(); i++ {
				if st.Field(i).Name() == parts[2] {
					if sig, ok := st.Field(i).Type().Underlying().(*types.Signature); ok {
						return sig, nil
					}
				}
			}
		}
		return nil, nil
	}
	if strings.HasPrefix(key, "(") {
		end := strings.Index(key, ")")
		tn := key[1:end]
		m := key[end+2:]
		i := strings.LastIndex(tn, ".")
		if i < 0 {
			return nil, nil
		}
		p := e.tpkgs[tn[:i]]
		if p == nil {
			return nil, nil
		}
		obj := p.Scope().Lookup(tn[i+1:])
		if obj == nil {
			return nil, nil
		}
		if it, ok := obj.Type().Underlying().(*types.Interface); ok {
			for j := 0; j < it.NumMethods(); j++ {
				if it.Method(j).Name() == m {
					return it.Method(j).Type().(*types.Signature), obj.Type()
				}
			}
		}
		return nil, nil
	}
	i := strings.LastIndex(key, ".")
	if i < 0 {
		return nil, nil
	}
	p := e.tpkgs[key[:i]]
	if p == nil {
		return nil, nil
	}
	obj := p.Scope().Lookup(key[i+1:])
	if obj == nil {
		return nil, nil
	}
	if sig, ok := obj.Type().Underlying().(*types.Signature); ok {
		return sig, nil
	}
	return nil, nil
}

func hasProp(props []string, p string) bool {
	for _, x := range props {
		if x == p {
			return true
		}
	}
	return false
}

// VerifyFunc generates all obligations of one function under contract.
func (e *Engine) VerifyFunc(fc *FuncContract) *FuncResult {
	res := &FuncResult{Func: shortFuncName(fc.Key), Key: fc.Key, Props: fc.Props, Trusted: fc.Trusted || fc.Assumed || fc.FnType}
	fn := e.funcs[fc.Key]
	// A trusted contract may still carry at_call clauses: its requires / assigns / ensures stay trusted (callers use
	// them as before), but the body is walked and the call-site assertions - and only those - become obligations,
	// with callee preconditions and panic sites assumed. This pins an ordering or an argument inside a function
	// whose full frame is out of reach (DESIGN 2.9).
	trustedCalls := fc.Trusted && len(fc.AtCalls) > 0 && fn != nil && fn.Blocks != nil
	if (fc.Trusted && !trustedCalls) || fc.Assumed || fc.FnType {
		return res
	}
	if trustedCalls {
		cp := *fc
		cp.Trusted = false
		cp.NoPanic = false
		cp.MayPanic = true
		cp.Ensures = nil
		cp.EnsuresAlways = nil
		cp.HasAssigns = false
		cp.Assigns = nil
		cp.Terminates = false
		fc = &cp
		res.Trusted = false
		defer func() {
			var keep []*Obligation
			for _, o := range res.Obls {
				if o.Kind == "at-call" || o.Kind == "at-call-always" {
					keep = append(keep, o)
				}
			}
			res.Obls = keep
			res.Abstr = append(res.Abstr, fn.Name()+": trusted contract; the body is walked for its call-site assertions only (callee preconditions and panic sites assumed)")
		}()
	}
	if fn == nil {
		res.Errs = append(res.Errs, fmt.Sprintf("contract target %s not found in the code (renamed or removed?)", fc.Key))
		return res
	}
	if fn.Blocks == nil {
		res.Errs = append(res.Errs, fmt.Sprintf("contract target %s has no body", fc.Key))
		return res
	}
	c := newFnCtx(e, fn, fc)
	fr := c.newFrame(fn, "", 0)
	fr.top = true
	fr.lspecs = fc.Loops
	fr.pkg = fc.PkgPath
	entry := &State{heap: map[string]string{}, armed: map[*ssa.Defer]string{}, reach: "true"}
	// at_call! clauses: a function-local flag per clause, false on entry, set where the matched call is made
	for _, ac := range fc.AtCalls {
		if ac.Always {
			c.heapSort[atCallAlwaysKey(ac)] = "Bool"
			entry.heap[atCallAlwaysKey(ac)] = "false"
		}
	}
	c.entry = entry.clone()
	// parameters
	for _, p := range fn.Params {
		srt := c.ss.SortOf(p.Type())
		n := "p!" + sanitize(p.Name())
		c.declare(n, srt)
		c.assumeRange(n, p.Type())
		t := Term{n, srt, p.Type()}
		fr.vals[p] = Val{T: t}
		c.params[p.Name()] = t
		if isRefLike(p.Type()) {
			if _, isIface := types.Unalias(p.Type()).Underlying().(*types.Interface); !isIface {
				if _, isFn := types.Unalias(p.Type()).Underlying().(*types.Signature); !isFn {
					c.emit(fmt.Sprintf("(assert (or (= %s 0) (select %s %s)))", n, c.heapGet(entry, "alloc"), n))
				}
			}
		}
	}
	// a parameter renamed since the contract was written keeps its recorded name as an alias (by position)
	if meta := e.localsMeta[fn.String()]; meta != nil && len(meta.Params) == len(fn.Params) {
		for i, p := range fn.Params {
			if old := meta.Params[i]; old != p.Name() {
				if _, clash := c.params[old]; !clash {
					c.params[old] = c.params[p.Name()]
				}
			}
		}
	}
	en := &Env{c: c, vars: map[string]Term{}, cur: c.entry, old: c.entry, pkg: fc.PkgPath}
	for k, v := range c.params {
		en.vars[k] = v
	}
	c.evalLets(fc, en)
	for _, l := range fc.LetSrc {
		c.lets[l.Label] = en.vars[l.Label]
	}
	var reqs []string
	for _, r := range fc.Requires {
		g, err := en.EvalBool(r.E)
		if err != nil {
			c.errorf("requires %q: %v", r.Src, err)
			continue
		}
		reqs = append(reqs, g)
	}
	entry.reach = c.define("reach0", "Bool", and(reqs...))
	c.entry.reach = entry.reach
	fr.encodeBody(entry)
	res.NLoops = len(fr.loops)
	for n := range fc.Loops {
		if n < 1 || n > len(fr.loops) {
			c.errorf("loop %d has a contract but the function has %d loops", n, len(fr.loops))
		}
	}
	// ensures_always: the panic edges.  A call that may panic leaves the heap in an unknown state (the callee
	// was somewhere in its body); the deferred calls armed at that point then run, last first, and the
	// clause must hold afterwards.  (A panic raised by a deferred call itself is not followed further.)
	for _, pp := range c.panicPts {
		s := pp.st
		c.havocAll(s)
		fr.curBlock = pp.blk
		fr.runDefers(s)
		pe := &Env{c: c, vars: map[string]Term{}, cur: s, old: c.entry, pkg: fc.PkgPath}
		for k, v := range c.params {
			pe.vars[k] = v
		}
		for k, v := range c.lets {
			pe.vars[k] = v
		}
		for _, ens := range fc.EnsuresAlways {
			g, err := pe.EvalBool(ens.E)
			if err != nil {
				c.errorf("ensures_always %q: %v", ens.Src, err)
				continue
			}
			o := c.obligation("post-panic", ens.Label, pp.pos, "ensures_always "+ens.Src, s.reach, g, ens.Props)
			o.Note = "if the call to " + shortFuncName(pp.callee) + " panics: after the deferred calls armed at this point have run"
		}
	}
	// postconditions and frame at each return
	sig := fn.Signature
	var retReach []string
	for i, r := range fr.rets {
		retReach = append(retReach, r.state.reach)
		blk := fr.retBlocks[i]
		pe := &Env{c: c, vars: map[string]Term{}, cur: r.state, old: c.entry, pkg: fc.PkgPath}
		for k, v := range c.params {
			pe.vars[k] = v
		}
		for k, v := range c.lets {
			pe.vars[k] = v
		}
		bindResults(pe.vars, sig, r.results)
		st := r.state
		pe.lookup = func(name string) (Term, bool) { return fr.localAtEnd(blk, name, st) }
		for _, ens := range fc.Ensures {
			g, err := pe.EvalBool(ens.E)
			if err != nil {
				c.errorf("ensures %q: %v", ens.Src, err)
				continue
			}
			c.obligation("post", ens.Label, r.pos, "ensures "+ens.Src, r.state.reach, g, ens.Props)
		}
		for _, ac := range fc.AtCalls {
			if ac.Always {
				c.obligation("at-call-always", ac.C.Label, r.pos, "every path that returns has made the call to "+ac.Match+" ["+ac.C.Label+"]", r.state.reach, c.heapGet(r.state, atCallAlwaysKey(ac)), ac.C.Props)
			}
		}
		if fc.HasAssigns {
			c.frameObligations(fc, fr, r, en)
		}
	}
	// vacuity: some return must be reachable under the requires (unless the function never returns)
	if len(fr.rets) > 0 {
		o := c.obligation("cover", "return", fn.Pos(), "some return is reachable under the preconditions", "true", or(retReach...), nil)
		o.Cover = true
	}
	// known findings: attach the witness exclusion to matching obligations
	if e.known != nil {
		for _, o := range c.obls {
			for _, kf := range e.known.Findings {
				if (e.curProp == "" || kf.Property == e.curProp || true) && kf.matches(o, e.curProp) {
					w, err := ParseExpr(kf.Witness)
					if err != nil {
						c.errorf("known finding witness %q: %v", kf.Witness, err)
						continue
					}
					g, err := en.EvalBool(w)
					if err != nil {
						c.errorf("known finding witness %q: %v", kf.Witness, err)
						continue
					}
					if o.Excl == "" {
						o.Excl = g
					} else {
						o.Excl = or(o.Excl, g)
					}
					o.KF = kf
				}
			}
		}
	}
	res.Obls = c.obls
	res.Abstr = c.abstr
	// vacuity: an at_call clause that matched no call site asserts nothing
	for _, ac := range fc.AtCalls {
		if c.atCallSeen[ac.Match+"|"+ac.C.Label] == 0 {
			c.errorf("at_call %s [%s]: no such call in %s (removed or renamed?)", ac.Match, ac.C.Label, fn.Name())
		}
	}
	res.Errs = c.errs
	res.Callees = c.callees
	res.Specs = c.usedSpecs
	axs := c.axiomText(fc.PkgPath)
	res.Prelude = c.ss.Prelude() + axs
	res.Body = strings.Join(c.body, "\n") + "\n"
	return res
}

// frameObligations: every heap location written by the body but not named in assigns is unchanged
// for every object that existed at entry.
func (c *FnCtx) frameObligations(fc *FuncContract, fr *Frame, r retInfo, entryEnv *Env) {
	ws := c.eng.WriteSetOf(fr.fn)
	if ws.All {
		c.errorf("frame: %s has an assigns clause but calls code with unknown effects (%s)", fr.fn.Name(), ws.Why)
		return
	}
	// assigned refs per key
	allowed := map[string][]string{}
	allowAll := map[string]bool{}
	for _, a := range fc.Assigns {
		loc, err := entryEnv.EvalLValue(a.E)
		if err != nil {
			c.errorf("assigns %q: %v", a.Src, err)
			continue
		}
		for _, k := range loc.keys {
			if loc.all {
				allowAll[k] = true
			} else {
				allowed[k] = append(allowed[k], loc.ref)
			}
		}
	}
	alloc0 := c.heapGet(c.entry, "alloc")
	for _, k := range ws.sorted() {
		if isLocalKey(k) || k == "alloc" || allowAll[k] {
			continue
		}
		if strings.HasPrefix(k, "!error") {
			c.errorf("frame: %s", k)
			continue
		}
		if strings.HasPrefix(k, "c:[") {
			// cells of fixed-size arrays: in this module these are variadic argument packs ([n]any) and stack buffers
			// ([1024]byte) of callees, never caller-visible objects (assumption A-ARRAYCELL, listed in the evidence)
			c.abstracted(fmt.Sprintf("%s: frame of array cells %s not checked (argument packs / stack buffers of callees: A-ARRAYCELL)", fr.fn.Name(), k))
			continue
		}
		h0 := c.heapGet(c.entry, k)
		h1 := c.heapGet(r.state, k)
		if h0 == h1 {
			continue
		}
		if strings.HasPrefix(k, "g:") || strings.HasPrefix(k, "gg:") {
			srt := c.sortOfKey(k)
			eq := app("=", h0, h1)
			if c.ss.IsSeq(Sort(srt)) {
				eq = app(srt+".eq", h0, h1)
			}
			c.obligation("frame", sanitize(k), r.pos, "global "+k+" not in assigns", r.state.reach, eq, nil)
			continue
		}
		var conds []string
		conds = append(conds, app("select", alloc0, "r!f"))
		for _, ref := range allowed[k] {
			conds = append(conds, not(app("=", "r!f", ref)))
		}
		goal := fmt.Sprintf("(forall ((r!f Int)) %s)", implies(and(conds...), app("=", app("select", h1, "r!f"), app("select", h0, "r!f"))))
		c.obligation("frame", sanitize(k), r.pos, "only assigns-listed objects change in "+k, r.state.reach, goal, nil)
	}
}

// axiomText renders global axioms (and already-proved lemmas) usable from package pkg.
func (c *FnCtx) axiomText(pkg string) string {
	var b strings.Builder
	for _, ax := range c.eng.cs.Axioms {
		if c.skipAxiom == ax.Name || ax.Manual {
			continue
		}
		if !c.axiomRelevant(ax) {
			continue
		}
		s, err := c.axiomSMT(ax)
		if err != nil {
			c.errorf("axiom %s: %v", ax.Name, err)
			continue
		}
		b.WriteString(s)
	}
	b.WriteString(c.definesAxioms())
	// axioms may have declared more specs
	return c.ss.lateDecls() + b.String()
}

// axiomRelevant: include an axiom only when all uninterpreted specs it mentions are already in use.
func (c *FnCtx) axiomRelevant(ax *AxiomDef) bool {
	names := map[string]bool{}
	collectCalls(ax.Body, names)
	any := false
	for n := range names {
		sd := c.eng.cs.LookupSpec(ax.PkgPath, n)
		if sd == nil || sd.Body != nil {
			continue
		}
		any = true
		if !c.specDecl["spec."+sanitize(sd.Name)] {
			return false
		}
	}
	return any
}

func collectCalls(e Expr, out map[string]bool) {
	switch x := e.(type) {
	case ECall:
		out[x.Fun] = true
		for _, a := range x.Args {
			collectCalls(a, out)
		}
	case EUn:
		collectCalls(x.X, out)
	case EBin:
		collectCalls(x.X, out)
		collectCalls(x.Y, out)
	case ESel:
		collectCalls(x.X, out)
	case EIdx:
		collectCalls(x.X, out)
		collectCalls(x.I, out)
	case ESlice:
		collectCalls(x.X, out)
		if x.Lo != nil {
			collectCalls(x.Lo, out)
		}
		if x.Hi != nil {
			collectCalls(x.Hi, out)
		}
	case EQuant:
		collectCalls(x.Lo, out)
		if x.Hi != nil {
			collectCalls(x.Hi, out)
		}
		collectCalls(x.Body, out)
	case EOld:
		collectCalls(x.X, out)
	}
}

func (c *FnCtx) axiomSMT(ax *AxiomDef) (string, error) {
	vars := map[string]Term{}
	var binders []string
	for _, p := range ax.Params {
		ty, err := c.eng.resolveType(ax.PkgPath, p.Type)
		if err != nil {
			return "", err
		}
		n := "a!" + p.Name
		vars[p.Name] = Term{n, c.ss.SortOf(ty), ty}
		binders = append(binders, fmt.Sprintf("(%s %s)", n, c.ss.SortOf(ty)))
	}
	st := &State{heap: map[string]string{}, armed: map[*ssa.Defer]string{}}
	en := &Env{c: c, vars: vars, cur: st, old: st, pkg: ax.PkgPath}
	g, err := en.EvalBool(ax.Body)
	if err != nil {
		return "", err
	}
	if len(binders) == 0 {
		return fmt.Sprintf("(assert %s)\n", g), nil
	}
	pat := ""
	for _, multi := range ax.Trigger {
		var ts []string
		for _, t := range multi {
			tt, err := en.Eval(t)
			if err != nil {
				return "", err
			}
			ts = append(ts, tt.S)
		}
		pat += " :pattern (" + strings.Join(ts, " ") + ")"
	}
	if pat != "" {
		return fmt.Sprintf("(assert (forall (%s) (! %s%s)))\n", strings.Join(binders, " "), g, pat), nil
	}
	return fmt.Sprintf("(assert (forall (%s) %s))\n", strings.Join(binders, " "), g), nil
}

func (ss *Sorts) lateDecls() string { return "" }

// VerifyLemma produces the obligation for a lemma (an axiom that must be proved from the others).
func (e *Engine) VerifyLemma(ax *AxiomDef) *FuncResult {
	res := &FuncResult{Func: "lemma " + ax.Name, Key: "lemma:" + ax.Name, Props: ax.Props}
	c := newFnCtx(e, nil, &FuncContract{Key: "lemma:" + ax.Name, PkgPath: ax.PkgPath})
	c.skipAxiom = ax.Name
	vars := map[string]Term{}
	for _, p := range ax.Params {
		ty, err := e.resolveType(ax.PkgPath, p.Type)
		if err != nil {
			res.Errs = append(res.Errs, err.Error())
			return res
		}
		n := "l!" + p.Name
		c.declare(n, c.ss.SortOf(ty))
		c.assumeRange(n, ty)
		vars[p.Name] = Term{n, c.ss.SortOf(ty), ty}
	}
	st := &State{heap: map[string]string{}, armed: map[*ssa.Defer]string{}}
	en := &Env{c: c, vars: vars, cur: st, old: st, pkg: ax.PkgPath}
	g, err := en.EvalBool(ax.Body)
	if err != nil {
		res.Errs = append(res.Errs, err.Error())
		return res
	}
	// proof steps: ground instances of earlier axioms / lemmas, and, under "induct m", of the lemma itself at
	// arguments whose measure is smaller (and non-negative): well-founded induction on the naturals
	for _, u := range ax.Uses {
		call, ok := u.E.(ECall)
		if !ok {
			res.Errs = append(res.Errs, "use: expected name(args): "+u.Src)
			continue
		}
		var target *AxiomDef
		before := false
		for _, a := range e.cs.Axioms {
			if a == ax {
				before = true
			}
			if a.Name == call.Fun {
				target = a
				if a != ax && before {
					target = nil // declared after this lemma: not usable (no circular proofs)
				}
				break
			}
		}
		if target == nil {
			res.Errs = append(res.Errs, "use "+call.Fun+": no axiom or lemma of that name declared before lemma "+ax.Name)
			continue
		}
		inst, err := c.useInstance(u, en)
		if err != nil {
			res.Errs = append(res.Errs, "use "+u.Src+": "+err.Error())
			continue
		}
		if target == ax {
			if ax.Induct == nil {
				res.Errs = append(res.Errs, "use of the lemma itself needs an induct clause: "+u.Src)
				continue
			}
			m0, err1 := en.Eval(ax.Induct.E)
			vars2 := map[string]Term{}
			for i, p := range ax.Params {
				t, err := en.Eval(call.Args[i])
				if err != nil {
					err1 = err
					break
				}
				vars2[p.Name] = t
			}
			en2 := &Env{c: c, vars: vars2, cur: st, old: st, pkg: ax.PkgPath}
			m1, err2 := en2.Eval(ax.Induct.E)
			if err1 != nil || err2 != nil {
				res.Errs = append(res.Errs, fmt.Sprintf("induct %s: %v %v", ax.Induct.Src, err1, err2))
				continue
			}
			inst = implies(and(app(">=", m1.S, "0"), app("<", m1.S, m0.S)), inst)
		}
		c.emit(fmt.Sprintf("(assert %s)", inst))
	}
	o := &Obligation{Name: "lemma:" + ax.Name, Kind: "lemma", Func: "lemma " + ax.Name, Pos: fmt.Sprintf("%s:%d", ax.File, ax.Line), Src: ax.Src, Guard: "true", Goal: g}
	if e.known != nil {
		for _, kf := range e.known.Findings {
			if kf.matches(o, e.curProp) {
				w, err := ParseExpr(kf.Witness)
				if err == nil {
					if g, err := en.EvalBool(w); err == nil {
						o.Excl = g
						o.KF = kf
					} else {
						res.Errs = append(res.Errs, fmt.Sprintf("known finding witness %q: %v", kf.Witness, err))
					}
				}
			}
		}
	}
	res.Obls = []*Obligation{o}
	// later lemmas may not be used to prove earlier ones: only axioms and lemmas declared before this one
	axs := c.axiomTextBefore(ax)
	res.Prelude = c.ss.Prelude() + axs
	res.Body = strings.Join(c.body, "\n") + "\n"
	res.Errs = append(res.Errs, c.errs...)
	res.Specs = c.usedSpecs
	return res
}

func (c *FnCtx) axiomTextBefore(l *AxiomDef) string {
	var b strings.Builder
	for _, ax := range c.eng.cs.Axioms {
		if ax == l {
			break
		}
		if ax.Manual || !c.axiomRelevant(ax) {
			continue
		}
		s, err := c.axiomSMT(ax)
		if err != nil {
			c.errorf("axiom %s: %v", ax.Name, err)
			continue
		}
		b.WriteString(s)
	}
	b.WriteString(c.definesAxioms())
	return b.String()
}

// definesAxioms: a pure function of value parameters that "defines" a spec symbol f and whose postconditions
// are proved (it is under contract, not trusted) gives, for all arguments, requires ==> ensures[result := f(args)].
// These are consequences of proved obligations, not assumptions; they let lemmas talk about the real functions.
func (c *FnCtx) definesAxioms() string {
	var keys []string
	for k, fc := range c.eng.cs.Funcs {
		if fc.Defines != "" && fc.Pure && !fc.Trusted && !fc.Assumed && !fc.FnType {
			keys = append(keys, k)
		}
	}
	sort.Strings(keys)
	var b strings.Builder
	for _, k := range keys {
		fc := c.eng.cs.Funcs[k]
		if c.fc != nil && c.fc.Key == k {
			continue // never while verifying the function itself
		}
		if !c.specDecl["spec."+sanitize(fc.Defines)] {
			continue
		}
		fn := c.eng.funcs[k]
		if fn == nil || fn.Signature.Results().Len() != 1 {
			continue
		}
		vars := map[string]Term{}
		var binders []string
		var argExprs []Expr
		ok := true
		for _, p := range fn.Params {
			if isRefLike(p.Type()) {
				ok = false
			}
			n := "d!" + sanitize(p.Name())
			srt := c.ss.SortOf(p.Type())
			vars[p.Name()] = Term{n, srt, p.Type()}
			binders = append(binders, fmt.Sprintf("(%s %s)", n, srt))
			argExprs = append(argExprs, EIdent{p.Name()})
		}
		if !ok || len(binders) == 0 {
			continue
		}
		st := &State{heap: map[string]string{}, armed: map[*ssa.Defer]string{}}
		en := &Env{c: c, vars: vars, cur: st, old: st, pkg: fc.PkgPath}
		res, err := en.Eval(ECall{fc.Defines, argExprs})
		if err != nil {
			continue
		}
		vars["result"] = res
		vars["result0"] = res
		var pre, post []string
		for _, r := range fc.Requires {
			g, err := en.EvalBool(r.E)
			if err != nil {
				ok = false
				break
			}
			pre = append(pre, g)
		}
		for _, e := range fc.Ensures {
			g, err := en.EvalBool(e.E)
			if err != nil {
				continue
			}
			post = append(post, g)
		}
		if !ok || len(post) == 0 {
			continue
		}
		fmt.Fprintf(&b, "(assert (forall (%s) (! (=> %s %s) :pattern (%s))))\n", strings.Join(binders, " "), and(pre...), and(post...), res.S)
	}
	return b.String()
}

func sortedKeys(m map[string]string) []string {
	var ks []string
	for k := range m {
		ks = append(ks, k)
	}
	sort.Strings(ks)
	return ks
}

// VerifyFinal checks a "final pkg.Type.field" declaration: no instruction of the module stores into that field
// except through an object allocated in the same function (the object under construction).  Decided
// syntactically over the SSA of every module function; the result is reported as one obligation.
func (e *Engine) VerifyFinal(fd *FinalDef) *FuncResult {
	res := &FuncResult{Func: "final " + fd.Field, Key: "final:" + fd.Field, Props: fd.Props}
	var bad []string
	seen := false
	for _, fn := range e.allFuncs() {
		for _, b := range fn.Blocks {
			for _, ins := range b.Instrs {
				fa, ok := ins.(*ssa.FieldAddr)
				if !ok {
					continue
				}
				pt, ok := types.Unalias(fa.X.Type()).Underlying().(*types.Pointer)
				if !ok {
					continue
				}
				st, ok := structOf(pt.Elem())
				if !ok {
					continue
				}
				if fieldKey(pt.Elem(), st.Field(fa.Field).Name()) != fd.Key {
					continue
				}
				seen = true
				if fa.Referrers() == nil {
					continue
				}
				for _, r := range *fa.Referrers() {
					switch x := r.(type) {
					case *ssa.Store:
						if x.Addr != fa {
							continue
						}
						if _, isAlloc := fa.X.(*ssa.Alloc); isAlloc {
							continue
						}
						p, line := e.srcLine(x.Pos())
						bad = append(bad, fmt.Sprintf("%s: %s (%s)", p, line, fn.String()))
					case *ssa.UnOp, *ssa.DebugRef:
					case *ssa.Call:
						// the address of the field handed to a callee: module callees could write through it
						if cal := x.Common().StaticCallee(); cal != nil && cal.Pkg != nil && strings.HasPrefix(cal.Pkg.Pkg.Path(), modulePath) {
							p, line := e.srcLine(x.Pos())
							bad = append(bad, fmt.Sprintf("%s: address passed to %s: %s", p, cal.String(), line))
						}
					default:
						p, line := e.srcLine(r.Pos())
						bad = append(bad, fmt.Sprintf("%s: address of the field escapes: %s (%s)", p, line, fn.String()))
					}
				}
			}
		}
	}
	o := &Obligation{Name: "final " + fd.Field + "/only-constructors-write", Kind: "final", Func: "final " + fd.Field,
		Pos: fmt.Sprintf("%s:%d", fd.File, fd.Line), Src: "final " + fd.Field, Static: true, Solver: "syntactic scan of the module's SSA"}
	if !seen {
		res.Errs = append(res.Errs, "final "+fd.Field+": no such field is addressed anywhere in the module (renamed or removed?)")
	}
	if len(bad) == 0 {
		o.Result = "proved"
	} else {
		o.Result = "failed"
		o.Model = "the field is written (or its address escapes) outside construction:\n" + strings.Join(bad, "\n")
	}
	res.Obls = []*Obligation{o}
	return res
}

// useInstance evaluates one "use name(args)" clause: the body of the named axiom or lemma with its
// parameters bound to the argument terms (a ground instance; sound because the axiom is assumed and a
// lemma is proved separately, from what precedes it only).
func (c *FnCtx) useInstance(use Clause, en *Env) (string, error) {
	call, ok := use.E.(ECall)
	if !ok {
		return "", fmt.Errorf("use: expected name(args), got %s", use.Src)
	}
	var ax *AxiomDef
	for _, a := range c.eng.cs.Axioms {
		if a.Name == call.Fun {
			ax = a
		}
	}
	if ax == nil {
		return "", fmt.Errorf("use: no axiom or lemma named %s", call.Fun)
	}
	if len(call.Args) != len(ax.Params) {
		return "", fmt.Errorf("use %s: %d arguments for %d parameters", ax.Name, len(call.Args), len(ax.Params))
	}
	vars := map[string]Term{}
	for i, p := range ax.Params {
		t, err := en.Eval(call.Args[i])
		if err != nil {
			return "", err
		}
		vars[p.Name] = t
	}
	en2 := &Env{c: c, vars: vars, cur: en.cur, old: en.old, pkg: ax.PkgPath}
	return en2.EvalBool(ax.Body)
}
