package main

import (
	"fmt"
	"go/token"
	"go/types"
	"sort"
	"strings"

	"golang.org/x/tools/go/ssa"
)

// State is the symbolic state at a program point: which SMT symbol currently holds
// each heap array / local cell, plus the path condition.
type State struct {
	heap  map[string]string // key -> symbol (or term)
	gen   int               // fallback generation for keys not in heap
	reach string            // Bool term: this point is reached (and nothing before it panicked)
	armed map[*ssa.Defer]string
	dord  []*ssa.Defer // defers seen on some path to here, in order
}

func (s *State) clone() *State {
	n := &State{heap: make(map[string]string, len(s.heap)), gen: s.gen, reach: s.reach, armed: map[*ssa.Defer]string{}}
	for k, v := range s.heap {
		n.heap[k] = v
	}
	for k, v := range s.armed {
		n.armed[k] = v
	}
	n.dord = append([]*ssa.Defer{}, s.dord...)
	return n
}

type genInfo struct {
	// a generation is either primitive (fresh unconstrained arrays) or a merge of others
	merge []genEdge
}
type genEdge struct {
	cond string
	gen  int
}

type Obligation struct {
	Name   string
	Kind   string
	Func   string
	Pos    string
	Src    string // source line or clause text
	Guard  string
	Goal   string
	Props  []string // nil = all props of the function
	Note   string
	Cover  bool // vacuity check: expected sat/unknown
	Result string
	Solver string
	TimeMs int64
	Model  string
	Static bool   // decided without a solver (syntactic check); Result is preset
	Excl   string // known-finding exclusion (SMT term) if any
	KF     *KnownFinding
	ExclOK bool // proved only under the exclusion
}

type FnCtx struct {
	eng        *Engine
	fn         *ssa.Function
	fc         *FuncContract
	ss         *Sorts
	body       []string
	n          int
	obls       []*Obligation
	heapSort   map[string]string // key -> SMT sort of the array / cell
	gens       []genInfo
	genSyms    map[string]bool
	kindCnt    map[string]int
	panicPts   []panicPoint
	skipCnt    int
	abstr      []string          // abstractions applied (unsupported constructs replaced by unconstrained values)
	errs       []string          // hard errors (contract could not be applied)
	callees    map[string]string // callee -> how handled
	entry      *State
	params     map[string]Term
	paramTy    map[string]types.Type
	lets       map[string]Term
	inlDepth   int
	returns    []retInfo
	ghostOld   map[string]Term
	specDecl   map[string]bool
	usedSpecs  []string
	inlineN    int
	skipAxiom  string
	atCallSeen map[string]int
}

type retInfo struct {
	state   *State
	results []Term
	pos     token.Pos
}

func (c *FnCtx) fresh(prefix string) string {
	c.n++
	return fmt.Sprintf("%s!%d", prefix, c.n)
}

func (c *FnCtx) emit(s string) { c.body = append(c.body, s) }

func (c *FnCtx) declare(name string, sort interface{}) {
	c.emit(fmt.Sprintf("(declare-const %s %v)", name, sort))
}

// define introduces a named constant equal to term (keeps terms small).
func (c *FnCtx) define(prefix string, sort interface{}, term string) string {
	if isAtom(term) {
		return term
	}
	n := c.fresh(prefix)
	c.emit(fmt.Sprintf("(define-fun %s () %v %s)", n, sort, term))
	return n
}

func isAtom(t string) bool {
	return !strings.ContainsAny(t, " (")
}

func (c *FnCtx) assume(guard, fact string) {
	if fact == "true" {
		return
	}
	c.emit("(assert " + implies(guard, fact) + ")")
}

func (c *FnCtx) abstracted(what string) {
	for _, a := range c.abstr {
		if a == what {
			return
		}
	}
	c.abstr = append(c.abstr, what)
}

func (c *FnCtx) errorf(f string, a ...interface{}) {
	c.errs = append(c.errs, fmt.Sprintf(f, a...))
}

// heapSortOf records / returns the SMT sort of a heap key.
func (c *FnCtx) setHeapSort(key, sort string) {
	if old, ok := c.heapSort[key]; ok && old != sort {
		c.errorf("heap key %s used at sorts %s and %s", key, old, sort)
	}
	c.heapSort[key] = sort
}

func smtKey(key string) string { return sanitize(key) }

// sortOfKey is the SMT sort of the symbol that holds a heap key: an array indexed by
// reference for fields / cells / maps, the value sort itself for local cells.
func (c *FnCtx) sortOfKey(key string) string {
	if s, ok := c.heapSort[key]; ok {
		return s
	}
	var s string
	switch {
	case key == "alloc":
		s = "(Array Int Bool)"
	case strings.HasPrefix(key, "f:"), strings.HasPrefix(key, "c:"), strings.HasPrefix(key, "gh:"):
		t, ok := keyTypes[key]
		if !ok {
			c.errorf("heap key %s has no recorded type", key)
			s = "(Array Int Int)"
		} else {
			s = fmt.Sprintf("(Array Int %s)", c.ss.SortOf(t))
		}
	case strings.HasPrefix(key, "m:"), strings.HasPrefix(key, "d:"):
		t, ok := keyTypes[key]
		if !ok {
			c.errorf("heap key %s has no recorded type", key)
			s = "(Array Int (Array Int Int))"
		} else {
			m := types.Unalias(t).Underlying().(*types.Map)
			if key[0] == 'm' {
				s = fmt.Sprintf("(Array Int (Array %s %s))", c.ss.SortOf(m.Key()), c.ss.SortOf(m.Elem()))
			} else {
				s = fmt.Sprintf("(Array Int (Array %s Bool))", c.ss.SortOf(m.Key()))
			}
		}
	case strings.HasPrefix(key, "g:"), strings.HasPrefix(key, "gg:"):
		t, ok := keyTypes[key]
		if !ok {
			c.errorf("global %s has no recorded type", key)
			s = "Int"
		} else {
			s = string(c.ss.SortOf(t))
		}
	default:
		c.errorf("heap key %s has no sort", key)
		s = "Int"
	}
	c.heapSort[key] = s
	return s
}

// genSym returns the symbol for key in generation g, declaring (and, for merged
// generations, defining) it on first use.
func (c *FnCtx) genSym(g int, key string) string {
	sym := fmt.Sprintf("H!%d!%s", g, smtKey(key))
	if c.genSyms[sym] {
		return sym
	}
	c.genSyms[sym] = true
	srt := c.sortOfKey(key)
	gi := c.gens[g]
	if len(gi.merge) == 0 {
		c.declare(sym, srt)
		if key == "alloc" {
			// nil is never an allocated object
			c.emit(fmt.Sprintf("(assert (not (select %s 0)))", sym))
		}
		if g == 0 && strings.HasPrefix(key, "f:") {
			// well-formed entry heap: a reference stored in a field of an allocated object is nil or allocated
			if t, ok := keyTypes[key]; ok {
				switch types.Unalias(t).Underlying().(type) {
				case *types.Pointer, *types.Map:
					al := c.genSym(0, "alloc")
					c.emit(fmt.Sprintf("(assert (forall ((r!w Int)) (! (=> (select %s r!w) (or (= (select %s r!w) 0) (select %s (select %s r!w)))) :pattern ((select %s r!w)))))", al, sym, al, sym, sym))
				}
			}
		}
		return sym
	}
	// merged generation
	term := ""
	for i := len(gi.merge) - 1; i >= 0; i-- {
		ed := gi.merge[i]
		s := c.genSym(ed.gen, key)
		if term == "" {
			term = s
		} else {
			term = ite(ed.cond, s, term)
		}
	}
	c.emit(fmt.Sprintf("(define-fun %s () %s %s)", sym, srt, term))
	return sym
}

func (c *FnCtx) newGen() int {
	c.gens = append(c.gens, genInfo{})
	return len(c.gens) - 1
}

func (c *FnCtx) heapGet(s *State, key string) string {
	if v, ok := s.heap[key]; ok {
		return v
	}
	if c.eng.finalKeys[key] {
		// a final field is never written after construction: one symbol for every generation
		return c.genSym(0, key)
	}
	return c.genSym(s.gen, key)
}

func (c *FnCtx) heapSet(s *State, key, term string) {
	srt := c.sortOfKey(key)
	s.heap[key] = c.define("H!"+smtKey(key), srt, term)
}

// havocKey gives key a fresh unconstrained value.
func (c *FnCtx) havocKey(s *State, key string) {
	if c.eng.finalKeys[key] {
		// a final field is never written after construction (checked over the whole module): no havoc touches it
		return
	}
	srt := c.sortOfKey(key)
	n := c.fresh("H!" + smtKey(key))
	c.declare(n, srt)
	s.heap[key] = n
}

// isLocalKey: keys private to the function being verified (not touched by callees).
func isLocalKey(k string) bool {
	return strings.HasPrefix(k, "loc:") || strings.HasPrefix(k, "sl:") || strings.HasPrefix(k, "it:")
}

// havocAll forgets everything about the shared heap (unknown callee effects).
func (c *FnCtx) havocAll(s *State) {
	for k := range s.heap {
		if !isLocalKey(k) && !strings.HasPrefix(k, "ghostfix:") && !c.eng.finalKeys[k] {
			delete(s.heap, k)
		}
	}
	s.gen = c.newGen()
}

// mergeStates joins predecessor states under their edge conditions.
func (c *FnCtx) mergeStates(edges []string, states []*State) *State {
	if len(states) == 1 {
		n := states[0].clone()
		n.reach = edges[0]
		return n
	}
	n := &State{heap: map[string]string{}, armed: map[*ssa.Defer]string{}}
	n.reach = c.define("reach", "Bool", or(edges...))
	// generation
	same := true
	for _, s := range states[1:] {
		if s.gen != states[0].gen {
			same = false
		}
	}
	if same {
		n.gen = states[0].gen
	} else {
		g := c.newGen()
		for i, s := range states {
			c.gens[g].merge = append(c.gens[g].merge, genEdge{edges[i], s.gen})
		}
		n.gen = g
	}
	keys := map[string]bool{}
	for _, s := range states {
		for k := range s.heap {
			keys[k] = true
		}
	}
	var ks []string
	for k := range keys {
		ks = append(ks, k)
	}
	sort.Strings(ks)
	for _, k := range ks {
		vals := make([]string, len(states))
		allSame := true
		for i, s := range states {
			if isLocalKey(k) {
				if v, ok := s.heap[k]; ok {
					vals[i] = v
				} else {
					vals[i] = "" // not yet defined on this path
				}
			} else {
				vals[i] = c.heapGet(s, k)
			}
			if vals[i] != vals[0] {
				allSame = false
			}
		}
		if allSame {
			if vals[0] != "" {
				n.heap[k] = vals[0]
			}
			continue
		}
		term := ""
		for i := len(states) - 1; i >= 0; i-- {
			if vals[i] == "" {
				continue
			}
			if term == "" {
				term = vals[i]
			} else {
				term = ite(edges[i], vals[i], term)
			}
		}
		n.heap[k] = c.define("H!"+smtKey(k), c.sortOfKey(k), term)
	}
	// defers
	seen := map[*ssa.Defer]bool{}
	for _, s := range states {
		for _, d := range s.dord {
			if !seen[d] {
				seen[d] = true
				n.dord = append(n.dord, d)
			}
		}
	}
	for _, d := range n.dord {
		term := ""
		all := true
		var first string
		for i := len(states) - 1; i >= 0; i-- {
			v, ok := states[i].armed[d]
			if !ok {
				v = "false"
			}
			if first == "" {
				first = v
			} else if v != first {
				all = false
			}
			if term == "" {
				term = v
			} else {
				term = ite(edges[i], v, term)
			}
		}
		if all {
			n.armed[d] = first
		} else {
			n.armed[d] = c.define("armed", "Bool", term)
		}
	}
	return n
}

// KnownFinding is an entry of /verif/known_findings.json.
type KnownFinding struct {
	Property   string `json:"property"`
	Func       string `json:"function"`  // short function name
	Kind       string `json:"kind"`      // obligation kind prefix, e.g. "nopanic:index"
	SrcMatch   string `json:"src_match"` // substring of the obligation's source text / note
	Witness    string `json:"witness"`   // contract expression over the function's inputs (entry state)
	What       string `json:"what"`      // human description of what fails
	Input      string `json:"input"`     // concrete failing input
	Status     string `json:"status"`    // "open" or "fixed"
	FixCommit  string `json:"fix_commit,omitempty"`
	ReplayTest string `json:"replay_test,omitempty"`
}

// panicPoint: a call in the function under verification that may panic (ensures_always).
type panicPoint struct {
	st     *State
	blk    *ssa.BasicBlock
	pos    token.Pos
	callee string
	fc     *FuncContract
}
