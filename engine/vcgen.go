package main

// SSA -> verification conditions.  See DESIGN.md §2.3 for the semantics.

import (
	"fmt"
	"go/constant"
	"go/token"
	"go/types"
	"sort"
	"strings"

	"golang.org/x/tools/go/ssa"
)

type lvKind int

const (
	lvHeap   lvKind = iota // heap[key][ref]
	lvLocal                // function-private cell (non-escaping Alloc)
	lvElem                 // element idx of the sequence stored at parent
	lvSub                  // field of the struct value stored at parent
	lvSlElem               // element of an SSA slice value (value semantics, override key sl:<name>)
	lvGlobal               // package-level variable
	lvObj                  // a struct object addressed by ref: fields live in f: arrays
)

type LVal struct {
	kind   lvKind
	key    string
	ref    string
	parent *LVal
	idx    string
	field  int
	ty     types.Type // type of the value stored at this location
	base   ssa.Value  // lvSlElem
}

type Val struct {
	T    Term
	LV   *LVal
	Tup  []Val
	Fn   *ssa.Function // statically known function value (closure or func literal)
	Clo  *ssa.MakeClosure
	Alts []altFn // a function value that is one of several known closures, depending on the path taken
}

type altFn struct {
	cond string
	fn   *ssa.Function
	clo  *ssa.MakeClosure
}

type loopInfo struct {
	header   *ssa.BasicBlock
	ord      int
	body     map[*ssa.BasicBlock]bool
	ws       *WriteSet
	hs       *State
	variants []string
	rangePhi *ssa.Phi
	autoDec  bool
	spec     *LoopSpec
	pos      token.Pos
}

type Frame struct {
	c          *FnCtx
	fn         *ssa.Function
	vals       map[ssa.Value]Val
	prov       map[ssa.Value]*LVal
	in         map[*ssa.BasicBlock]*State
	out        map[*ssa.BasicBlock]*State
	edge       map[[2]int]string
	back       map[[2]int]bool
	loops      map[*ssa.BasicBlock]*loopInfo
	tag        string
	top        bool
	rets       []retInfo
	depth      int
	lspecs     map[int]*LoopSpec
	pkg        string
	parent     *Frame
	curBlock   *ssa.BasicBlock
	retBlocks  []*ssa.BasicBlock
	stamps     map[ssa.Value]string
	iterSeq    map[ssa.Value]string
	nilChecked map[string]*ssa.BasicBlock
	curArgVals []ssa.Value
}

func newFnCtx(e *Engine, fn *ssa.Function, fc *FuncContract) *FnCtx {
	c := &FnCtx{eng: e, fn: fn, fc: fc, ss: NewSorts(), heapSort: map[string]string{}, genSyms: map[string]bool{},
		kindCnt: map[string]int{}, callees: map[string]string{}, params: map[string]Term{}, paramTy: map[string]types.Type{}, lets: map[string]Term{}}
	c.gens = []genInfo{{}}
	c.ss.SeqOf(SInt)
	return c
}

func (c *FnCtx) obligation(kind, label string, pos token.Pos, src string, guard, goal string, props []string) *Obligation {
	c.kindCnt[kind]++
	name := fmt.Sprintf("%s/%s#%d", c.fnName(), kind, c.kindCnt[kind])
	if label != "" {
		name = fmt.Sprintf("%s/%s:%s", c.fnName(), kind, label)
		if c.kindCnt[kind+":"+label] > 0 {
			name += fmt.Sprintf("#%d", c.kindCnt[kind+":"+label]+1)
		}
		c.kindCnt[kind+":"+label]++
	}
	p, line := c.eng.srcLine(pos)
	if src == "" {
		src = line
	}
	o := &Obligation{Name: name, Kind: kind, Func: c.fnName(), Pos: p, Src: src, Guard: guard, Goal: goal, Props: props}
	c.obls = append(c.obls, o)
	return o
}

// continueAfterFalse: an obligation with goal "false" (a guard that fires whenever its site is reachable) after
// which generation goes on.  Everything later is put under a fresh free boolean, so that a later assumption
// which contradicts the path cannot make the site look unreachable (assert-then-assume discipline).
func (c *FnCtx) continueAfterFalse(st *State) {
	c.skipCnt++
	n := fmt.Sprintf("skip!%d", c.skipCnt)
	c.emit(fmt.Sprintf("(declare-const %s Bool)\n", n))
	st.reach = c.define("reach", "Bool", and(st.reach, n))
}

func (c *FnCtx) fnName() string {
	if c.fn != nil {
		return shortFuncName(c.fn.String())
	}
	if c.fc != nil {
		return shortFuncName(c.fc.Key)
	}
	return "?"
}

func shortFuncName(s string) string {
	return strings.ReplaceAll(s, modulePath+"/", "")
}

// ---------------------------------------------------------------------------------
// values

func (c *FnCtx) zeroValue(t types.Type) string {
	srt := c.ss.SortOf(t)
	switch {
	case srt == SInt:
		return "0"
	case srt == SBool:
		return "false"
	case srt == "Real":
		return "0.0"
	case c.ss.IsSeq(srt):
		if a, ok := types.Unalias(t).Underlying().(*types.Array); ok {
			c.needMk(srt)
			return app(string(srt)+".mk", intLit(a.Len()), c.zeroValue(a.Elem()))
		}
		return string(srt) + ".empty"
	}
	if info := c.ss.Struct(srt); info != nil {
		st, _ := structOf(t)
		var as []string
		for i := 0; i < st.NumFields(); i++ {
			as = append(as, c.zeroValue(st.Field(i).Type()))
		}
		if len(as) == 0 {
			return "mk!" + info.Name
		}
		return app("mk!"+info.Name, as...)
	}
	return "0"
}

// needMk declares S.mk(n, e): the sequence of n copies of e.
func (c *FnCtx) needMk(srt Sort) {
	name := string(srt) + ".mk"
	if c.specDecl == nil {
		c.specDecl = map[string]bool{}
	}
	if c.specDecl[name] {
		return
	}
	c.specDecl[name] = true
	S, E := string(srt), string(c.ss.Elem(srt))
	c.ss.extraDecl = append(c.ss.extraDecl,
		fmt.Sprintf("(declare-fun %s.mk (Int %s) %s)", S, E, S),
		fmt.Sprintf("(assert (forall ((n Int) (e %s)) (! (=> (>= n 0) (= (%s.len (%s.mk n e)) n)) :pattern ((%s.mk n e)))))", E, S, S, S),
		fmt.Sprintf("(assert (forall ((n Int) (e %s) (i Int)) (! (=> (and (<= 0 i) (< i n)) (= (%s.at (%s.mk n e) i) e)) :pattern ((%s.at (%s.mk n e) i)))))", E, S, S, S, S))
}

func constToTerm(c *FnCtx, exact, kind string, ty types.Type, v constant.Value) Term {
	srt := c.ss.SortOf(ty)
	switch v.Kind() {
	case constant.Bool:
		if constant.BoolVal(v) {
			return Term{"true", SBool, ty}
		}
		return Term{"false", SBool, ty}
	case constant.Int:
		if i, ok := constant.Int64Val(v); ok {
			return Term{intLit(i), SInt, ty}
		}
		s := v.ExactString()
		if strings.HasPrefix(s, "-") {
			return Term{"(- " + s[1:] + ")", SInt, ty}
		}
		return Term{s, SInt, ty}
	case constant.String:
		return Term{c.ss.StrLit(constant.StringVal(v)), srt, ty}
	case constant.Float:
		f, _ := constant.Float64Val(v)
		return Term{fmt.Sprintf("%f", f), "Real", ty}
	}
	return Term{"0", srt, ty}
}

func (fr *Frame) constVal(k *ssa.Const) Term {
	c := fr.c
	if k.Value == nil {
		return Term{c.zeroValue(k.Type()), c.ss.SortOf(k.Type()), k.Type()}
	}
	t := constToTerm(c, "", "", k.Type(), k.Value)
	if t.Sort != c.ss.SortOf(k.Type()) {
		// e.g. rune constant of string kind etc.
		t.Sort = c.ss.SortOf(k.Type())
	}
	return t
}

func (c *FnCtx) funcConst(f *ssa.Function) string {
	name := "fn!" + sanitize(f.String())
	if c.specDecl == nil {
		c.specDecl = map[string]bool{}
	}
	if !c.specDecl[name] {
		c.specDecl[name] = true
		c.ss.extraDecl = append(c.ss.extraDecl, fmt.Sprintf("(declare-const %s Int)\n(assert (not (= %s 0)))", name, name))
	}
	return name
}

// term returns the SMT term of an SSA value at state st.
func (fr *Frame) term(v ssa.Value, st *State) Term {
	c := fr.c
	switch x := v.(type) {
	case *ssa.Const:
		return fr.constVal(x)
	case *ssa.Function:
		return Term{c.funcConst(x), SInt, x.Type()}
	case *ssa.Global:
		c.abstracted("address of global " + x.String() + " used as a value")
		return Term{c.freshConst("gaddr", SInt), SInt, x.Type()}
	case *ssa.Builtin:
		return Term{"0", SInt, x.Type()}
	}
	val, ok := fr.vals[v]
	if !ok {
		c.errorf("%s: SSA value %s (%T) used before definition", fr.fn, v.Name(), v)
		return Term{c.freshConst("undef", c.ss.SortOf(v.Type())), c.ss.SortOf(v.Type()), v.Type()}
	}
	if val.LV != nil {
		// An address used as a value: only objects have a reference.
		if val.LV.kind == lvObj {
			return Term{val.LV.ref, SInt, v.Type()}
		}
		if val.LV.kind == lvHeap && strings.HasPrefix(val.LV.key, "c:") {
			return Term{val.LV.ref, SInt, v.Type()}
		}
		c.abstracted(fmt.Sprintf("%s: address %s escapes as a value", fr.fn.Name(), v.Name()))
		return Term{c.freshConst("addr", SInt), SInt, v.Type()}
	}
	if val.Tup != nil {
		c.errorf("%s: tuple %s used as a value", fr.fn, v.Name())
		return Term{"0", SInt, v.Type()}
	}
	if st != nil {
		if ov, ok := st.heap["sl:"+fr.tag+v.Name()]; ok {
			return Term{ov, val.T.Sort, val.T.Ty}
		}
	}
	return val.T
}

func (c *FnCtx) freshConst(prefix string, srt Sort) string {
	n := c.fresh(prefix)
	c.declare(n, srt)
	return n
}

// rangeFact: the constraint a value of Go type t satisfies (machine ranges of small ints).
func (c *FnCtx) rangeFact(term string, t types.Type) string {
	b, ok := types.Unalias(t).Underlying().(*types.Basic)
	if !ok {
		return "true"
	}
	switch b.Kind() {
	case types.Uint8:
		return and(app("<=", "0", term), app("<=", term, "255"))
	case types.Int8:
		return and(app("<=", "(- 128)", term), app("<=", term, "127"))
	case types.Uint16:
		return and(app("<=", "0", term), app("<=", term, "65535"))
	case types.Int16:
		return and(app("<=", "(- 32768)", term), app("<=", term, "32767"))
	case types.Int32:
		return and(app("<=", "(- 2147483648)", term), app("<=", term, "2147483647"))
	case types.Uint32:
		return and(app("<=", "0", term), app("<=", term, "4294967295"))
	case types.Uint, types.Uint64, types.Uintptr:
		return app("<=", "0", term)
	}
	return "true"
}

func (c *FnCtx) assumeRange(term string, t types.Type) {
	if f := c.rangeFact(term, t); f != "true" {
		c.emit("(assert " + f + ")")
	}
}

func (fr *Frame) setVal(v ssa.Value, term string) {
	c := fr.c
	srt := c.ss.SortOf(v.Type())
	name := c.define(fr.tag+v.Name(), srt, term)
	fr.vals[v] = Val{T: Term{name, srt, v.Type()}}
}

func (fr *Frame) setFresh(v ssa.Value) string {
	c := fr.c
	srt := c.ss.SortOf(v.Type())
	n := c.freshConst(fr.tag+v.Name(), srt)
	c.assumeRange(n, v.Type())
	fr.vals[v] = Val{T: Term{n, srt, v.Type()}}
	return n
}

// ---------------------------------------------------------------------------------
// lvalues

func (fr *Frame) load(lv *LVal, st *State) string {
	c := fr.c
	switch lv.kind {
	case lvHeap:
		return app("select", c.heapGet(st, lv.key), lv.ref)
	case lvGlobal:
		return c.heapGet(st, lv.key)
	case lvLocal:
		if v, ok := st.heap[lv.key]; ok {
			return v
		}
		// never stored on this path: zero value
		return c.zeroValue(lv.ty)
	case lvElem:
		p := fr.load(lv.parent, st)
		S := string(c.ss.SortOf(lv.parent.ty))
		return app(S+".at", p, lv.idx)
	case lvSlElem:
		bt := fr.term(lv.base, st)
		return app(string(bt.Sort)+".at", bt.S, lv.idx)
	case lvSub:
		p := fr.load(lv.parent, st)
		info := c.ss.Struct(c.ss.SortOf(lv.parent.ty))
		return app(info.Fields[lv.field].Name, p)
	case lvObj:
		return c.loadStruct(st, lv.ref, lv.ty).S
	}
	return "0"
}

func (fr *Frame) store(lv *LVal, st *State, val string) {
	c := fr.c
	switch lv.kind {
	case lvHeap:
		c.heapSet(st, lv.key, app("store", c.heapGet(st, lv.key), lv.ref, val))
	case lvGlobal:
		c.heapSet(st, lv.key, val)
	case lvLocal:
		c.heapSort[lv.key] = string(c.ss.SortOf(lv.ty))
		c.heapSet(st, lv.key, val)
	case lvElem:
		p := fr.load(lv.parent, st)
		S := string(c.ss.SortOf(lv.parent.ty))
		fr.store(lv.parent, st, app(S+".upd", p, lv.idx, val))
	case lvSlElem:
		bt := fr.term(lv.base, st)
		key := "sl:" + fr.tag + lv.base.Name()
		c.heapSort[key] = string(bt.Sort)
		c.heapSet(st, key, app(string(bt.Sort)+".upd", bt.S, lv.idx, val))
	case lvSub:
		p := fr.load(lv.parent, st)
		info := c.ss.Struct(c.ss.SortOf(lv.parent.ty))
		pn := c.define("sv", info.Name, p)
		var as []string
		for i, f := range info.Fields {
			if i == lv.field {
				as = append(as, val)
			} else {
				as = append(as, app(f.Name, pn))
			}
		}
		fr.store(lv.parent, st, app("mk!"+info.Name, as...))
	case lvObj:
		// whole-struct store: field by field
		info := c.ss.Struct(c.ss.SortOf(lv.ty))
		st2, _ := structOf(lv.ty)
		vn := c.define("sv", info.Name, val)
		for i, f := range info.Fields {
			key := fieldKey(lv.ty, st2.Field(i).Name())
			c.heapSet(st, key, app("store", c.heapGet(st, key), lv.ref, app(f.Name, vn)))
		}
	}
}

// lvalOf interprets a pointer-typed SSA value as a location.
func (fr *Frame) lvalOf(addr ssa.Value, st *State) *LVal {
	c := fr.c
	if g, ok := addr.(*ssa.Global); ok {
		el := g.Type().(*types.Pointer).Elem()
		key := "g:" + g.String()
		keyTypes[key] = el
		return &LVal{kind: lvGlobal, key: key, ty: el}
	}
	if v, ok := fr.vals[addr]; ok && v.LV != nil {
		return v.LV
	}
	// a pointer value
	t := fr.term(addr, st)
	p, ok := isPointer(addr.Type())
	if !ok {
		c.errorf("%s: load/store through non-pointer %s", fr.fn, addr.Name())
		return &LVal{kind: lvLocal, key: "loc:bad", ty: tInt}
	}
	if _, isStruct := structOf(p.Elem()); isStruct {
		return &LVal{kind: lvObj, ref: t.S, ty: p.Elem()}
	}
	return &LVal{kind: lvHeap, key: cellKey(p.Elem()), ref: t.S, ty: p.Elem()}
}

// ---------------------------------------------------------------------------------
// body encoding

func (c *FnCtx) newFrame(fn *ssa.Function, tag string, depth int) *Frame {
	return &Frame{c: c, fn: fn, vals: map[ssa.Value]Val{}, prov: map[ssa.Value]*LVal{}, in: map[*ssa.BasicBlock]*State{},
		out: map[*ssa.BasicBlock]*State{}, edge: map[[2]int]string{}, back: map[[2]int]bool{}, loops: map[*ssa.BasicBlock]*loopInfo{},
		tag: tag, depth: depth}
}

func (fr *Frame) order() []*ssa.BasicBlock {
	fn := fr.fn
	// back edges
	for _, b := range fn.Blocks {
		for _, s := range b.Succs {
			if s.Dominates(b) {
				fr.back[[2]int{b.Index, s.Index}] = true
			}
		}
	}
	var post []*ssa.BasicBlock
	seen := map[*ssa.BasicBlock]bool{}
	var dfs func(b *ssa.BasicBlock)
	dfs = func(b *ssa.BasicBlock) {
		seen[b] = true
		for i := len(b.Succs) - 1; i >= 0; i-- {
			s := b.Succs[i]
			if fr.back[[2]int{b.Index, s.Index}] || seen[s] {
				continue
			}
			dfs(s)
		}
		post = append(post, b)
	}
	dfs(fn.Blocks[0])
	for i, j := 0, len(post)-1; i < j; i, j = i+1, j-1 {
		post[i], post[j] = post[j], post[i]
	}
	return post
}

func (fr *Frame) findLoops(order []*ssa.BasicBlock) {
	fn := fr.fn
	var headers []*ssa.BasicBlock
	hset := map[*ssa.BasicBlock]bool{}
	for _, b := range fn.Blocks {
		for _, s := range b.Succs {
			if fr.back[[2]int{b.Index, s.Index}] && !hset[s] {
				hset[s] = true
				headers = append(headers, s)
			}
		}
	}
	sort.Slice(headers, func(i, j int) bool { return headers[i].Index < headers[j].Index })
	for n, h := range headers {
		li := &loopInfo{header: h, ord: n + 1, body: map[*ssa.BasicBlock]bool{h: true}, ws: &WriteSet{Keys: map[string]bool{}, Refs: map[string][]ssa.Value{}, AnyRef: map[string]bool{}, track: true}}
		// natural loop: all nodes that reach a back-edge source without passing h
		var stack []*ssa.BasicBlock
		for _, p := range h.Preds {
			if fr.back[[2]int{p.Index, h.Index}] && !li.body[p] {
				li.body[p] = true
				stack = append(stack, p)
			}
		}
		for len(stack) > 0 {
			b := stack[len(stack)-1]
			stack = stack[:len(stack)-1]
			for _, p := range b.Preds {
				if !li.body[p] {
					li.body[p] = true
					stack = append(stack, p)
				}
			}
		}
		visiting := map[*ssa.Function]bool{fn: true}
		for b := range li.body {
			for _, ins := range b.Instrs {
				fr.c.eng.instrWrites(fn, ins, li.ws, visiting)
				if li.pos == token.NoPos && ins.Pos().IsValid() && b == h {
					li.pos = ins.Pos()
				}
			}
		}
		if li.pos == token.NoPos {
			for _, b := range order {
				if li.body[b] {
					for _, ins := range b.Instrs {
						if ins.Pos().IsValid() {
							li.pos = ins.Pos()
							break
						}
					}
				}
				if li.pos != token.NoPos {
					break
				}
			}
		}
		if fr.lspecs != nil {
			li.spec = fr.lspecs[li.ord]
		}
		fr.loops[h] = li
	}
}

// localAt resolves a source-level variable name at the head of block b.
func (fr *Frame) localAt(b *ssa.BasicBlock, name string, phiSub map[*ssa.Phi]ssa.Value, st *State) (Term, bool) {
	for _, ins := range b.Instrs {
		phi, ok := ins.(*ssa.Phi)
		if !ok {
			break
		}
		if phi.Comment == name {
			if phiSub != nil {
				if v, ok := phiSub[phi]; ok {
					return fr.term(v, st), true
				}
			}
			return fr.term(phi, st), true
		}
	}
	for blk := b.Idom(); blk != nil; blk = blk.Idom() {
		if t, ok := fr.localInBlock(blk, len(blk.Instrs), name, st); ok {
			return t, true
		}
	}
	if t, ok := fr.paramOrResult(name, st); ok {
		return t, true
	}
	// the contract's name for a local that has been renamed since the contract was written
	if alias, ok := fr.c.eng.renamedLocal(fr.fn, name); ok && alias != name {
		return fr.localAt(b, alias, phiSub, st)
	}
	return Term{}, false
}

func (fr *Frame) localInBlock(blk *ssa.BasicBlock, upto int, name string, st *State) (Term, bool) {
	for i := upto - 1; i >= 0; i-- {
		switch x := blk.Instrs[i].(type) {
		case *ssa.DebugRef:
			if x.Object() != nil && x.Object().Name() == name {
				if _, isVar := x.Object().(*types.Var); !isVar {
					continue
				}
				if x.IsAddr {
					lv := fr.lvalOf(x.X, st)
					return Term{fr.load(lv, st), fr.c.ss.SortOf(lv.ty), lv.ty}, true
				}
				if _, ok := fr.vals[x.X]; ok {
					return fr.term(x.X, st), true
				}
				if _, isConst := x.X.(*ssa.Const); isConst {
					return fr.term(x.X, st), true
				}
			}
		case *ssa.Phi:
			if x.Comment == name {
				return fr.term(x, st), true
			}
		}
	}
	return Term{}, false
}

func (fr *Frame) paramOrResult(name string, st *State) (Term, bool) {
	for _, p := range fr.fn.Params {
		if p.Name() == name {
			return fr.term(p, st), true
		}
	}
	for _, fv := range fr.fn.FreeVars {
		if fv.Name() == name {
			lv := fr.lvalOf(fv, st)
			return Term{fr.load(lv, st), fr.c.ss.SortOf(lv.ty), lv.ty}, true
		}
	}
	return Term{}, false
}

// localAtEnd resolves a variable name at the end of block b (used for return points).
func (fr *Frame) localAtEnd(b *ssa.BasicBlock, name string, st *State) (Term, bool) {
	if t, ok := fr.localInBlock(b, len(b.Instrs), name, st); ok {
		return t, true
	}
	for blk := b.Idom(); blk != nil; blk = blk.Idom() {
		if t, ok := fr.localInBlock(blk, len(blk.Instrs), name, st); ok {
			return t, true
		}
	}
	if t, ok := fr.paramOrResult(name, st); ok {
		return t, true
	}
	if alias, ok := fr.c.eng.renamedLocal(fr.fn, name); ok && alias != name {
		return fr.localAtEnd(b, alias, st)
	}
	return Term{}, false
}

func (fr *Frame) encodeBody(entry *State) {
	c := fr.c
	order := fr.order()
	fr.findLoops(order)
	processed := map[*ssa.BasicBlock]bool{}
	for _, b := range order {
		var st *State
		if b == fr.fn.Blocks[0] {
			st = entry.clone()
		} else {
			var edges []string
			var states []*State
			var preds []*ssa.BasicBlock
			for _, p := range b.Preds {
				if !processed[p] || fr.back[[2]int{p.Index, b.Index}] {
					continue
				}
				ec, ok := fr.edge[[2]int{p.Index, b.Index}]
				if !ok {
					continue
				}
				edges = append(edges, ec)
				states = append(states, fr.out[p])
				preds = append(preds, p)
			}
			if len(states) == 0 {
				continue // unreachable (e.g. recover block)
			}
			if li := fr.loops[b]; li != nil {
				st = fr.enterLoop(li, b, preds, edges, states)
			} else {
				st = c.mergeStates(edges, states)
				fr.phis(b, preds, edges, states)
			}
		}
		fr.in[b] = st
		cur := st.clone()
		fr.block(b, cur)
		fr.out[b] = cur
		processed[b] = true
	}
}

func (fr *Frame) phis(b *ssa.BasicBlock, preds []*ssa.BasicBlock, edges []string, states []*State) {
	for _, ins := range b.Instrs {
		phi, ok := ins.(*ssa.Phi)
		if !ok {
			break
		}
		fr.phiOne(b, phi, preds, edges, states)
	}
}

// loopInvariantPhi: a phi at a loop header whose operand on every back edge is the phi itself keeps, in every
// iteration, the value it had on entry (typically a function value chosen by an if/else just before the loop).
func (fr *Frame) loopInvariantPhi(h *ssa.BasicBlock, phi *ssa.Phi) bool {
	n := 0
	for j, p := range h.Preds {
		if fr.back[[2]int{p.Index, h.Index}] {
			if phi.Edges[j] != ssa.Value(phi) {
				return false
			}
			n++
		}
	}
	return n > 0
}

// phiOne merges the operands of one phi over the given (already processed) predecessor edges.
func (fr *Frame) phiOne(b *ssa.BasicBlock, phi *ssa.Phi, preds []*ssa.BasicBlock, edges []string, states []*State) {
	{
		term := ""
		var alts []altFn
		allFn := true
		for i := len(preds) - 1; i >= 0; i-- {
			// which operand corresponds to preds[i]?
			var v ssa.Value
			for j, p := range b.Preds {
				if p == preds[i] {
					v = phi.Edges[j]
				}
			}
			t := fr.term(v, states[i]).S
			if term == "" {
				term = t
			} else {
				term = ite(edges[i], t, term)
			}
			if val, ok := fr.vals[v]; ok && val.Fn != nil {
				alts = append(alts, altFn{edges[i], val.Fn, val.Clo})
			} else if ok && val.Alts != nil {
				for _, a := range val.Alts {
					alts = append(alts, altFn{and(edges[i], a.cond), a.fn, a.clo})
				}
			} else if fn, ok := v.(*ssa.Function); ok {
				alts = append(alts, altFn{edges[i], fn, nil})
			} else {
				allFn = false
			}
		}
		fr.setVal(phi, term)
		if allFn && len(alts) > 0 {
			val := fr.vals[phi]
			val.Alts = alts
			fr.vals[phi] = val
		}
	}
}

func (fr *Frame) phiSubFor(h *ssa.BasicBlock, pred *ssa.BasicBlock) map[*ssa.Phi]ssa.Value {
	m := map[*ssa.Phi]ssa.Value{}
	for _, ins := range h.Instrs {
		phi, ok := ins.(*ssa.Phi)
		if !ok {
			break
		}
		for j, p := range h.Preds {
			if p == pred {
				m[phi] = phi.Edges[j]
			}
		}
	}
	return m
}

func (fr *Frame) invEnv(h *ssa.BasicBlock, phiSub map[*ssa.Phi]ssa.Value, st *State) *Env {
	c := fr.c
	en := &Env{c: c, vars: map[string]Term{}, cur: st, old: c.entry, pkg: fr.pkg}
	for k, v := range c.lets {
		en.vars[k] = v
	}
	en.lookup = func(name string) (Term, bool) {
		if strings.HasSuffix(name, "$0") && fr.top {
			if t, ok := c.params[strings.TrimSuffix(name, "$0")]; ok {
				return t, true
			}
		}
		if name == "itkeys" || name == "itpos" {
			// ghost key sequence / position of the map (or string) range driving this loop
			for _, ins := range h.Instrs {
				if nx, ok := ins.(*ssa.Next); ok {
					if rng, ok := nx.Iter.(*ssa.Range); ok {
						if name == "itpos" {
							if p, ok := st.heap["it:"+fr.tag+rng.Name()]; ok {
								return Term{p, SInt, tInt}, true
							}
						} else if seq, ok := fr.iterSeq[rng]; ok {
							m := types.Unalias(rng.X.Type()).Underlying().(*types.Map)
							return Term{seq, c.ss.SeqOf(c.ss.SortOf(m.Key())), types.NewSlice(m.Key())}, true
						}
					}
				}
			}
		}
		return fr.localAt(h, name, phiSub, st)
	}
	return en
}

func (fr *Frame) enterLoop(li *loopInfo, h *ssa.BasicBlock, preds []*ssa.BasicBlock, edges []string, states []*State) *State {
	c := fr.c
	// 1. invariants hold on entry
	if li.spec != nil {
		for i, p := range preds {
			en := fr.invEnv(h, fr.phiSubFor(h, p), states[i])
			entryOK := "true"
			for _, inv := range li.spec.Invariants {
				g, err := en.EvalBool(inv.E)
				if err != nil {
					c.errorf("%s loop %d invariant %q: %v", fr.fn.Name(), li.ord, inv.Src, err)
					continue
				}
				c.obligation("inv-entry", fmt.Sprintf("L%d", li.ord), li.pos, "loop "+fmt.Sprint(li.ord)+" invariant "+inv.Src, edges[i], g, inv.Props)
				// assert-then-assume: what follows (the invariant assumed for the havocked state included)
				// is only reachable when the invariant held on entry; otherwise the parts of the assumed
				// invariant that do not mention loop-modified state would leak back into this obligation
				entryOK = and(entryOK, g)
			}
			if entryOK != "true" {
				edges = append([]string(nil), edges...)
				edges[i] = c.define("edge", "Bool", and(edges[i], entryOK))
			}
		}
	}
	// 2. havoc
	hs := c.mergeStates(edges, states)
	if li.ws.All {
		c.abstracted(fmt.Sprintf("%s loop %d: unknown effects (%s): whole heap havocked", fr.fn.Name(), li.ord, li.ws.Why))
		c.havocAll(hs)
	}
	for _, k := range li.ws.sorted() {
		if strings.HasPrefix(k, "sl:") {
			k = "sl:" + fr.tag + k[3:]
			if _, ok := c.heapSort[k]; !ok {
				// sort known from the SSA value
				for _, b := range fr.fn.Blocks {
					for _, ins := range b.Instrs {
						if v, ok := ins.(ssa.Value); ok && "sl:"+fr.tag+v.Name() == k {
							c.heapSort[k] = string(c.ss.SortOf(v.Type()))
						}
					}
				}
				for _, p := range fr.fn.Params {
					if "sl:"+fr.tag+p.Name() == k {
						c.heapSort[k] = string(c.ss.SortOf(p.Type()))
					}
				}
			}
			// Only meaningful if the value is defined outside the loop; a fresh override is sound either way
			// provided the underlying value is defined (dominates the header).
			if !fr.definedBefore(k[3+len(fr.tag):], h) {
				continue
			}
			c.havocKey(hs, k)
			continue
		}
		if strings.HasPrefix(k, "it:") {
			k = "it:" + fr.tag + k[3:]
			if _, ok := c.heapSort[k]; !ok {
				continue
			}
		}
		if strings.HasPrefix(k, "!error") {
			c.errorf("%s loop %d: %s", fr.fn.Name(), li.ord, k)
			continue
		}
		// precise havoc: only the objects the loop can write through loop-invariant references
		if !li.ws.AnyRef[k] && (strings.HasPrefix(k, "f:") || strings.HasPrefix(k, "c:") || strings.HasPrefix(k, "m:") || strings.HasPrefix(k, "d:") || strings.HasPrefix(k, "gh:")) {
			precise := true
			var refs []string
			for _, rv := range li.ws.Refs[k] {
				if ins, ok := rv.(ssa.Instruction); ok && li.body[ins.Block()] {
					switch rv.(type) {
					case *ssa.Alloc, *ssa.MakeMap:
						continue // fresh object created inside the loop
					}
					// a load of a field that the loop does not write, from a loop-invariant object
					if t, ok := fr.invariantRef(rv, li, hs); ok {
						refs = append(refs, t)
						continue
					}
					precise = false
					break
				}
				if v, ok := fr.vals[rv]; ok && v.LV != nil && v.LV.kind != lvObj {
					if v.LV.kind == lvHeap && strings.HasPrefix(v.LV.key, "c:") {
						// an escaping local (captured variable): a heap cell addressed by its own reference
						refs = append(refs, v.LV.ref)
						continue
					}
					precise = false
					break
				}
				refs = append(refs, fr.term(rv, hs).S)
			}
			if precise {
				es := elemSortOfKey(c.sortOfKey(k))
				for _, r := range refs {
					nv := c.freshConst("lhv", Sort(es))
					if t, ok := keyTypes[k]; ok && (strings.HasPrefix(k, "f:") || strings.HasPrefix(k, "c:") || strings.HasPrefix(k, "gh:")) {
						c.assumeRange(nv, t)
					}
					c.heapSet(hs, k, app("store", c.heapGet(hs, k), r, nv))
				}
				continue
			}
		}
		c.havocKey(hs, k)
	}
	// local cells written in the loop
	for b := range li.body {
		for _, ins := range b.Instrs {
			if s, ok := ins.(*ssa.Store); ok {
				fr.havocLocalTarget(s.Addr, hs)
			}
		}
	}
	for _, ins := range h.Instrs {
		phi, ok := ins.(*ssa.Phi)
		if !ok {
			break
		}
		if fr.loopInvariantPhi(h, phi) {
			fr.phiOne(h, phi, preds, edges, states)
			continue
		}
		n := fr.setFresh(phi)
		if phi.Comment == "rangeindex" {
			// go/ssa lowers `range slice` to k = -1; loop: k++; if k < len: structural facts
			c.emit(fmt.Sprintf("(assert (>= %s (- 1)))", n))
			li.rangePhi = phi
		}
	}
	li.hs = hs
	// 3. assume invariants
	if li.spec != nil {
		en := fr.invEnv(h, nil, hs)
		for _, inv := range li.spec.Invariants {
			g, err := en.EvalBool(inv.E)
			if err != nil {
				continue
			}
			c.assume(hs.reach, g)
		}
		for _, u := range li.spec.Uses {
			g, err := c.useInstance(u, en)
			if err != nil {
				c.errorf("%s loop %d use %q: %v", fr.fn.Name(), li.ord, u.Src, err)
				continue
			}
			c.assume(hs.reach, g)
		}
		for _, d := range li.spec.Decreases {
			t, err := en.Eval(d.E)
			if err != nil {
				c.errorf("%s loop %d decreases %q: %v", fr.fn.Name(), li.ord, d.Src, err)
				continue
			}
			li.variants = append(li.variants, c.define("variant", "Int", t.S))
		}
	}
	return hs
}

// invariantRef: the value of a reference computed inside a loop as a chain of loads of fields
// that the loop never writes, starting from a value defined outside the loop, is the same in every
// iteration and can be evaluated in the header state.
func (fr *Frame) invariantRef(v ssa.Value, li *loopInfo, hs *State) (string, bool) {
	if ins, ok := v.(ssa.Instruction); !ok || !li.body[ins.Block()] {
		if val, ok := fr.vals[v]; ok && val.LV != nil && val.LV.kind != lvObj {
			return "", false
		}
		if _, ok := fr.vals[v]; !ok {
			if _, isConst := v.(*ssa.Const); !isConst {
				return "", false
			}
		}
		return fr.term(v, hs).S, true
	}
	u, ok := v.(*ssa.UnOp)
	if !ok || u.Op != token.MUL {
		return "", false
	}
	fa, ok := u.X.(*ssa.FieldAddr)
	if !ok {
		return "", false
	}
	sty, stt, ok := isPtrToStruct(fa.X.Type())
	if !ok {
		return "", false
	}
	key := fieldKey(sty, stt.Field(fa.Field).Name())
	if li.ws.Keys[key] || li.ws.All {
		return "", false
	}
	base, ok := fr.invariantRef(fa.X, li, hs)
	if !ok {
		return "", false
	}
	return app("select", fr.c.heapGet(hs, key), base), true
}

func (fr *Frame) definedBefore(name string, h *ssa.BasicBlock) bool {
	for _, p := range fr.fn.Params {
		if p.Name() == name {
			return true
		}
	}
	for _, b := range fr.fn.Blocks {
		for _, ins := range b.Instrs {
			if v, ok := ins.(ssa.Value); ok && v.Name() == name {
				return b != h && b.Dominates(h)
			}
		}
	}
	return false
}

// havocLocalTarget havocs the local cell (if any) a store through addr would write.
func (fr *Frame) havocLocalTarget(addr ssa.Value, st *State) {
	c := fr.c
	for {
		switch a := addr.(type) {
		case *ssa.FieldAddr:
			addr = a.X
			continue
		case *ssa.IndexAddr:
			addr = a.X
			continue
		case *ssa.Alloc:
			if v, ok := fr.vals[a]; ok && v.LV != nil && v.LV.kind == lvLocal {
				c.heapSort[v.LV.key] = string(c.ss.SortOf(v.LV.ty))
				c.havocKey(st, v.LV.key)
			}
		}
		return
	}
}

func (fr *Frame) backEdge(li *loopInfo, from *ssa.BasicBlock, edge string, st *State) {
	c := fr.c
	en := fr.invEnv(li.header, fr.phiSubFor(li.header, from), st)
	if li.spec != nil {
		for _, inv := range li.spec.Invariants {
			g, err := en.EvalBool(inv.E)
			if err != nil {
				c.errorf("%s loop %d invariant %q (back edge): %v", fr.fn.Name(), li.ord, inv.Src, err)
				continue
			}
			c.obligation("inv-step", fmt.Sprintf("L%d", li.ord), li.pos, "loop "+fmt.Sprint(li.ord)+" invariant "+inv.Src, edge, g, inv.Props)
		}
	}
	if !fr.c.wantTermination() {
		return
	}
	if (li.spec == nil || len(li.spec.Decreases) == 0) && (li.rangePhi != nil || headerHasNext(li.header)) {
		// range over a slice/array/string/map: the hidden index increases up to a fixed length
		return
	}
	if (li.spec == nil || len(li.spec.Decreases) == 0) && countedLoop(li) != "" {
		// for i := a; i < n; i++ with n fixed during the loop: decided on the shape of the SSA, once per loop
		if !li.autoDec {
			li.autoDec = true
			o := c.obligation("dec", fmt.Sprintf("L%d", li.ord), li.pos, "loop "+fmt.Sprint(li.ord)+" is a counted loop: "+countedLoop(li), "true", "true", nil)
			o.Static, o.Result, o.Solver = true, "proved", "syntactic: the loop counter moves by one towards a bound that the loop does not change"
		}
		return
	}
	if li.spec == nil || len(li.spec.Decreases) == 0 {
		c.obligation("dec", fmt.Sprintf("L%d", li.ord), li.pos, "loop "+fmt.Sprint(li.ord)+" has no decreases clause", edge, "false", nil).Note = "termination claimed but no variant given"
		return
	}
	// lexicographic decrease, bounded below
	var news []string
	for _, d := range li.spec.Decreases {
		t, err := en.Eval(d.E)
		if err != nil {
			c.errorf("%s loop %d decreases (back edge): %v", fr.fn.Name(), li.ord, err)
			return
		}
		news = append(news, t.S)
	}
	goal := "false"
	for i := len(news) - 1; i >= 0; i-- {
		dec := and(app("<", news[i], li.variants[i]), app(">=", li.variants[i], "0"))
		if i == len(news)-1 {
			goal = dec
		} else {
			goal = or(dec, and(app("=", news[i], li.variants[i]), goal))
		}
	}
	var srcs []string
	for _, d := range li.spec.Decreases {
		srcs = append(srcs, d.Src)
	}
	c.obligation("dec", fmt.Sprintf("L%d", li.ord), li.pos, "loop "+fmt.Sprint(li.ord)+" decreases "+strings.Join(srcs, ", "), edge, goal, nil)
}

// countedLoop recognises "for i := a; i <op> n; i++ / i--": the header ends in a comparison of a header phi
// with a value defined outside the loop, the true branch stays in the loop, the false branch leaves it, and
// every back edge feeds the phi with phi+1 (for < and <=) or phi-1 (for > and >=).  Returns a description,
// or "" when the loop does not have this shape.  (Integers are mathematical, A-ARITH.)
func countedLoop(li *loopInfo) string {
	h := li.header
	if len(h.Instrs) == 0 {
		return ""
	}
	iff, ok := h.Instrs[len(h.Instrs)-1].(*ssa.If)
	if !ok || len(h.Succs) != 2 || !li.body[h.Succs[0]] || li.body[h.Succs[1]] {
		return ""
	}
	cmp, ok := iff.Cond.(*ssa.BinOp)
	if !ok {
		return ""
	}
	outside := func(v ssa.Value) bool {
		switch x := v.(type) {
		case *ssa.Const, *ssa.Parameter, *ssa.FreeVar:
			return true
		case ssa.Instruction:
			return !li.body[x.Block()]
		}
		return false
	}
	try := func(cnt, bound ssa.Value, up bool) string {
		phi, ok := cnt.(*ssa.Phi)
		if !ok || phi.Block() != h || !outside(bound) {
			return ""
		}
		for i, p := range h.Preds {
			if !li.body[p] {
				continue
			}
			step, ok := phi.Edges[i].(*ssa.BinOp)
			if !ok {
				return ""
			}
			one, ok := step.Y.(*ssa.Const)
			if !ok || step.X != phi || one.Value == nil || one.Value.ExactString() != "1" {
				return ""
			}
			if (up && step.Op != token.ADD) || (!up && step.Op != token.SUB) {
				return ""
			}
		}
		dir := "up"
		if !up {
			dir = "down"
		}
		return fmt.Sprintf("%s counts %s by one towards %s", phi.Comment, dir, bound.Name())
	}
	switch cmp.Op {
	case token.LSS, token.LEQ:
		if d := try(cmp.X, cmp.Y, true); d != "" {
			return d
		}
		return try(cmp.Y, cmp.X, false)
	case token.GTR, token.GEQ:
		if d := try(cmp.X, cmp.Y, false); d != "" {
			return d
		}
		return try(cmp.Y, cmp.X, true)
	}
	return ""
}

func headerHasNext(h *ssa.BasicBlock) bool {
	for _, ins := range h.Instrs {
		if _, ok := ins.(*ssa.Next); ok {
			return true
		}
	}
	return false
}

func (c *FnCtx) wantTermination() bool { return c.fc != nil && c.fc.Terminates }

// nopanic registers a safety obligation at the current point and then assumes it.
func (fr *Frame) nopanic(st *State, kind string, pos token.Pos, cond string, note string) {
	c := fr.c
	if cond == "true" {
		return
	}
	if kind == "nil" && fr.curBlock != nil {
		// the same reference was already checked on every path to here
		if fr.nilChecked == nil {
			fr.nilChecked = map[string]*ssa.BasicBlock{}
		}
		if b, ok := fr.nilChecked[cond]; ok && (b == fr.curBlock || b.Dominates(fr.curBlock)) {
			return
		}
		fr.nilChecked[cond] = fr.curBlock
	}
	if c.fc != nil && !c.fc.NoPanic {
		st.reach = c.define("reach", "Bool", and(st.reach, cond))
		return
	}
	o := c.obligation("nopanic:"+kind, "", pos, "", st.reach, cond, nil)
	o.Note = note
	if fr.tag != "" {
		o.Note = strings.TrimSpace(o.Note + " (inlined " + fr.fn.Name() + ")")
	}
	st.reach = c.define("reach", "Bool", and(st.reach, cond))
}

func (fr *Frame) block(b *ssa.BasicBlock, st *State) {
	c := fr.c
	fr.curBlock = b
	for _, ins := range b.Instrs {
		fr.instr(ins, st)
	}
	// terminator edges
	if len(b.Instrs) == 0 {
		return
	}
	last := b.Instrs[len(b.Instrs)-1]
	reach := st.reach
	switch t := last.(type) {
	case *ssa.If:
		cond := fr.term(t.Cond, st).S
		e0 := c.define("edge", "Bool", and(reach, cond))
		e1 := c.define("edge", "Bool", and(reach, not(cond)))
		fr.setEdge(b, b.Succs[0], e0, st)
		fr.setEdge(b, b.Succs[1], e1, st)
	case *ssa.Jump:
		fr.setEdge(b, b.Succs[0], reach, st)
	}
}

func (fr *Frame) setEdge(from, to *ssa.BasicBlock, cond string, st *State) {
	k := [2]int{from.Index, to.Index}
	if old, ok := fr.edge[k]; ok {
		// both branches of an If go to the same block
		cond = fr.c.define("edge", "Bool", or(old, cond))
	}
	fr.edge[k] = cond
	if fr.back[k] {
		fr.backEdge(fr.loops[to], from, cond, st)
	}
}

func (fr *Frame) seqSort(t types.Type) string { return string(fr.c.ss.SortOf(t)) }

func (fr *Frame) instr(ins ssa.Instruction, st *State) {
	c := fr.c
	switch x := ins.(type) {
	case *ssa.DebugRef, *ssa.Phi, *ssa.If, *ssa.Jump:
		return
	case *ssa.Alloc:
		fr.alloc(x, st)
	case *ssa.FieldAddr:
		base := fr.lvalOf(x.X, st)
		sty, stt, _ := isPtrToStruct(x.X.Type())
		fname := stt.Field(x.Field).Name()
		fty := stt.Field(x.Field).Type()
		switch base.kind {
		case lvObj:
			// nil check
			fr.nopanic(st, "nil", x.Pos(), not(app("=", base.ref, "0")), "nil dereference")
			fr.vals[x] = Val{LV: &LVal{kind: lvHeap, key: fieldKey(sty, fname), ref: base.ref, ty: fty}}
		default:
			fr.vals[x] = Val{LV: &LVal{kind: lvSub, parent: base, field: x.Field, ty: fty}}
		}
	case *ssa.Field:
		t := fr.term(x.X, st)
		info := c.ss.Struct(t.Sort)
		if info == nil {
			c.errorf("%s: Field on non-struct sort %s", fr.fn, t.Sort)
			fr.setFresh(x)
			return
		}
		fr.setVal(x, app(info.Fields[x.Field].Name, t.S))
	case *ssa.IndexAddr:
		idx := fr.term(x.Index, st).S
		var lenT string
		var lv *LVal
		if _, isPtr := isPointer(x.X.Type()); isPtr {
			// pointer to array
			base := fr.lvalOf(x.X, st)
			arr := base.ty.Underlying().(*types.Array)
			lenT = intLit(arr.Len())
			lv = &LVal{kind: lvElem, parent: base, idx: idx, ty: arr.Elem()}
		} else {
			bt := fr.term(x.X, st)
			lenT = app(string(bt.Sort)+".len", bt.S)
			el := types.Unalias(x.X.Type()).Underlying().(*types.Slice).Elem()
			if p, ok := fr.prov[x.X]; ok && fr.provValid(x.X, st) {
				lv = &LVal{kind: lvElem, parent: p, idx: idx, ty: el}
			} else {
				lv = &LVal{kind: lvSlElem, base: x.X, idx: idx, ty: el}
			}
		}
		fr.nopanic(st, "index", x.Pos(), and(app("<=", "0", idx), app("<", idx, lenT)), "index out of range")
		fr.vals[x] = Val{LV: lv}
	case *ssa.Index:
		t := fr.term(x.X, st)
		idx := fr.term(x.Index, st).S
		fr.nopanic(st, "index", x.Pos(), and(app("<=", "0", idx), app("<", idx, app(string(t.Sort)+".len", t.S))), "index out of range")
		fr.setVal(x, app(string(t.Sort)+".at", t.S, idx))
		c.assumeRange(fr.vals[x].T.S, x.Type())
	case *ssa.UnOp:
		fr.unop(x, st)
	case *ssa.BinOp:
		fr.binop(x, st)
	case *ssa.Store:
		fr.aliasCheckStore(x, st)
		lv := fr.lvalOf(x.Addr, st)
		if lv.kind == lvObj {
			fr.nopanic(st, "nil", x.Pos(), not(app("=", lv.ref, "0")), "nil dereference")
		} else if lv.kind == lvHeap && strings.HasPrefix(lv.key, "c:") {
			fr.nopanic(st, "nil", x.Pos(), not(app("=", lv.ref, "0")), "nil dereference")
		}
		fr.store(lv, st, fr.term(x.Val, st).S)
		if lv.kind == lvElem {
			// keep the register the slice was loaded into in step (line := *l; line[i] = x)
			if ia, ok := x.Addr.(*ssa.IndexAddr); ok {
				if _, isPtr := isPointer(ia.X.Type()); !isPtr {
					bt := fr.term(ia.X, st)
					key := "sl:" + fr.tag + ia.X.Name()
					c.heapSort[key] = string(bt.Sort)
					c.heapSet(st, key, fr.load(lv.parent, st))
					fr.provStamp(ia.X, st)
				}
			}
		}
	case *ssa.Slice:
		fr.slice(x, st)
	case *ssa.Convert:
		fr.convert(x, st)
	case *ssa.ChangeType:
		t := fr.term(x.X, st)
		fr.vals[x] = Val{T: Term{t.S, c.ss.SortOf(x.Type()), x.Type()}, Fn: fr.vals[x.X].Fn, Clo: fr.vals[x.X].Clo}
	case *ssa.ChangeInterface:
		t := fr.term(x.X, st)
		fr.vals[x] = Val{T: Term{t.S, SInt, x.Type()}}
	case *ssa.MakeInterface:
		t := fr.term(x.X, st)
		if t.Sort == SInt && isRefLike(x.X.Type()) {
			// pointers, maps, funcs: the reference is the interface value
			fr.setVal(x, t.S)
			c.assume("true", implies(not(app("=", t.S, "0")), app("=", app("typeof!", t.S), intLit(int64(c.ss.TypeID(x.X.Type()))))))
		} else {
			c.ss.NeedBox(t.Sort)
			n := c.define(fr.tag+x.Name(), "Int", app("box!"+string(t.Sort), t.S))
			fr.vals[x] = Val{T: Term{n, SInt, x.Type()}}
			c.emit(fmt.Sprintf("(assert (= (typeof! %s) %d))", n, c.ss.TypeID(x.X.Type())))
		}
	case *ssa.TypeAssert:
		fr.typeAssert(x, st)
	case *ssa.Extract:
		tv, ok := fr.vals[x.Tuple]
		if !ok || tv.Tup == nil || x.Index >= len(tv.Tup) {
			c.errorf("%s: extract from non-tuple %s", fr.fn, x.Tuple.Name())
			fr.setFresh(x)
			return
		}
		fr.vals[x] = tv.Tup[x.Index]
	case *ssa.MakeSlice:
		n := fr.term(x.Len, st).S
		fr.nopanic(st, "makeslice", x.Pos(), app(">=", n, "0"), "makeslice: len out of range")
		srt := c.ss.SortOf(x.Type())
		c.needMk(srt)
		el := types.Unalias(x.Type()).Underlying().(*types.Slice).Elem()
		fr.setVal(x, app(string(srt)+".mk", n, c.zeroValue(el)))
	case *ssa.MakeMap:
		r := fr.newRef(st)
		mk, dk := mapKey(x.Type()), mapDomKey(x.Type())
		m := types.Unalias(x.Type()).Underlying().(*types.Map)
		ks, vs := c.ss.SortOf(m.Key()), c.ss.SortOf(m.Elem())
		c.heapSet(st, mk, app("store", c.heapGet(st, mk), r, fmt.Sprintf("((as const (Array %s %s)) %s)", ks, vs, c.zeroValue(m.Elem()))))
		c.heapSet(st, dk, app("store", c.heapGet(st, dk), r, fmt.Sprintf("((as const (Array %s Bool)) false)", ks)))
		fr.vals[x] = Val{T: Term{r, SInt, x.Type()}}
	case *ssa.MapUpdate:
		fr.aliasCheckKeep(x.Value, x.Pos(), st)
		m := fr.term(x.Map, st).S
		k := fr.term(x.Key, st).S
		v := fr.term(x.Value, st).S
		fr.nopanic(st, "nilmap", x.Pos(), not(app("=", m, "0")), "assignment to entry in nil map")
		mk, dk := mapKey(x.Map.Type()), mapDomKey(x.Map.Type())
		hm := c.heapGet(st, mk)
		c.heapSet(st, mk, app("store", hm, m, app("store", app("select", hm, m), k, v)))
		hd := c.heapGet(st, dk)
		c.heapSet(st, dk, app("store", hd, m, app("store", app("select", hd, m), k, "true")))
	case *ssa.Lookup:
		fr.lookup(x, st)
	case *ssa.Call:
		fr.call(x, x.Common(), st, x)
	case *ssa.Defer:
		if _, inLoop := fr.inLoop(x.Block()); inLoop {
			c.abstracted(fr.fn.Name() + ": defer inside a loop ignored")
			return
		}
		st.armed[x] = st.reach
		st.dord = append(st.dord, x)
	case *ssa.RunDefers:
		fr.runDefers(st)
	case *ssa.Return:
		fr.aliasCheckReturn(x, st)
		var res []Term
		for _, r := range x.Results {
			res = append(res, fr.term(r, st))
		}
		fr.rets = append(fr.rets, retInfo{state: st.clone(), results: res, pos: x.Pos()})
		fr.retBlocks = append(fr.retBlocks, x.Block())
	case *ssa.Panic:
		if c.fc == nil || !c.fc.MayPanic {
			_, line := c.eng.srcLine(x.Pos())
			c.obligation("nopanic:explicit", "", x.Pos(), line, st.reach, "false", nil).Note = "explicit panic reachable"
		}
		st.reach = "false"
	case *ssa.MakeClosure:
		f := x.Fn.(*ssa.Function)
		if strings.Contains(f.Synthetic, "bound method wrapper") && len(x.Bindings) == 1 {
			// a method value x.M with a pointer receiver: the receiver is captured now and dereferenced when
			// the value is called; capturing nil is a latent nil dereference (safety obligation here)
			if _, isPtr := types.Unalias(x.Bindings[0].Type()).Underlying().(*types.Pointer); isPtr {
				recv := fr.term(x.Bindings[0], st)
				fr.nopanic(st, "boundnil", x.Pos(), not(app("=", recv.S, "0")), "method value bound to a nil receiver: the call will dereference it")
			}
		}
		n := c.freshConst(fr.tag+x.Name(), SInt)
		c.emit(fmt.Sprintf("(assert (not (= %s 0)))", n))
		fr.vals[x] = Val{T: Term{n, SInt, x.Type()}, Fn: f, Clo: x}
	case *ssa.Range:
		fr.rangeInit(x, st)
	case *ssa.Next:
		fr.next(x, st)
	case *ssa.Go:
		c.abstracted(fr.fn.Name() + ": go statement ignored (no concurrency model)")
	case *ssa.Send:
		c.abstracted(fr.fn.Name() + ": channel send ignored (no concurrency model)")
	case *ssa.Select:
		c.abstracted(fr.fn.Name() + ": select abstracted (no concurrency model)")
		fr.freshTuple(x, st)
	case *ssa.MakeChan:
		fr.setFresh(x)
	case *ssa.SliceToArrayPointer, *ssa.MultiConvert:
		c.abstracted(fmt.Sprintf("%s: %T abstracted", fr.fn.Name(), ins))
		fr.setFresh(ins.(ssa.Value))
	default:
		c.errorf("%s: unsupported instruction %T: %s", fr.fn, ins, ins)
		if v, ok := ins.(ssa.Value); ok {
			fr.setFresh(v)
		}
	}
}

func isRefLike(t types.Type) bool {
	switch types.Unalias(t).Underlying().(type) {
	case *types.Pointer, *types.Map, *types.Signature, *types.Chan, *types.Interface:
		return true
	}
	return false
}

func (fr *Frame) inLoop(b *ssa.BasicBlock) (*loopInfo, bool) {
	for _, li := range fr.loops {
		if li.body[b] {
			return li, true
		}
	}
	return nil, false
}

func (fr *Frame) freshTuple(v ssa.Value, st *State) {
	c := fr.c
	tup, ok := v.Type().(*types.Tuple)
	if !ok {
		fr.setFresh(v)
		return
	}
	var vals []Val
	for i := 0; i < tup.Len(); i++ {
		ty := tup.At(i).Type()
		srt := c.ss.SortOf(ty)
		n := c.freshConst(fmt.Sprintf("%s%s.%d", fr.tag, v.Name(), i), srt)
		c.assumeRange(n, ty)
		vals = append(vals, Val{T: Term{n, srt, ty}})
	}
	fr.vals[v] = Val{Tup: vals}
}

func (fr *Frame) newRef(st *State) string {
	c := fr.c
	r := c.freshConst("new", SInt)
	al := c.heapGet(st, "alloc")
	c.emit(fmt.Sprintf("(assert (and (not (= %s 0)) (not (select %s %s))))", r, al, r))
	c.heapSet(st, "alloc", app("store", al, r, "true"))
	return r
}

func (fr *Frame) alloc(x *ssa.Alloc, st *State) {
	c := fr.c
	el := x.Type().(*types.Pointer).Elem()
	if _, isStruct := structOf(el); isStruct && (x.Heap || allocEscapes(x)) {
		r := fr.newRef(st)
		sty, _ := structOf(el)
		for i := 0; i < sty.NumFields(); i++ {
			key := fieldKey(el, sty.Field(i).Name())
			c.heapSet(st, key, app("store", c.heapGet(st, key), r, c.zeroValue(sty.Field(i).Type())))
		}
		fr.vals[x] = Val{LV: &LVal{kind: lvObj, ref: r, ty: el}}
		return
	}
	if allocEscapes(x) {
		r := fr.newRef(st)
		key := cellKey(el)
		c.heapSet(st, key, app("store", c.heapGet(st, key), r, c.zeroValue(el)))
		fr.vals[x] = Val{LV: &LVal{kind: lvHeap, key: key, ref: r, ty: el}}
		return
	}
	key := fmt.Sprintf("loc:%s%s", fr.tag, x.Name())
	lv := &LVal{kind: lvLocal, key: key, ty: el}
	c.heapSort[key] = string(c.ss.SortOf(el))
	fr.vals[x] = Val{LV: lv}
	c.heapSet(st, key, c.zeroValue(el))
}

// provenance of slice values loaded from a location: valid while the location is unchanged
type provStampT struct {
	sym string
}

func (fr *Frame) provStamp(v ssa.Value, st *State) {
	if fr.stamps == nil {
		fr.stamps = map[ssa.Value]string{}
	}
	if lv, ok := fr.prov[v]; ok {
		fr.stamps[v] = fr.rootSym(lv, st)
	}
}

func (fr *Frame) rootSym(lv *LVal, st *State) string {
	for lv.parent != nil {
		lv = lv.parent
	}
	switch lv.kind {
	case lvHeap, lvGlobal:
		return fr.c.heapGet(st, lv.key)
	case lvLocal:
		return st.heap[lv.key]
	}
	return ""
}

func (fr *Frame) provValid(v ssa.Value, st *State) bool {
	lv := fr.prov[v]
	return fr.stamps[v] == fr.rootSym(lv, st)
}

func (fr *Frame) unop(x *ssa.UnOp, st *State) {
	c := fr.c
	switch x.Op {
	case token.MUL:
		if g, ok := x.X.(*ssa.Global); ok {
			if k := c.eng.constGlobal(g); k != nil {
				fr.vals[x] = Val{T: fr.constVal(k)}
				return
			}
			if c.eng.nonNilGlobals[g] {
				n := fr.setFresh(x)
				c.emit(fmt.Sprintf("(assert (not (= %s 0)))", n))
				return
			}
		}
		lv := fr.lvalOf(x.X, st)
		if lv.kind == lvObj || (lv.kind == lvHeap && strings.HasPrefix(lv.key, "c:")) {
			fr.nopanic(st, "nil", x.Pos(), not(app("=", lv.ref, "0")), "nil dereference")
		}
		fr.setVal(x, fr.load(lv, st))
		c.assumeRange(fr.vals[x].T.S, x.Type())
		if isRefLike(x.Type()) {
			if _, isIface := types.Unalias(x.Type()).Underlying().(*types.Interface); !isIface {
				v := fr.vals[x].T.S
				c.assume("true", or(app("=", v, "0"), app("select", c.heapGet(st, "alloc"), v)))
			}
		}
		if c.ss.IsSeq(c.ss.SortOf(x.Type())) {
			fr.prov[x] = lv
			fr.provStamp(x, st)
		}
	case token.NOT:
		fr.setVal(x, not(fr.term(x.X, st).S))
	case token.SUB:
		fr.setVal(x, app("-", fr.term(x.X, st).S))
		fr.wrap(x)
	case token.ARROW:
		c.abstracted(fr.fn.Name() + ": channel receive abstracted (no concurrency model)")
		if _, ok := x.Type().(*types.Tuple); ok {
			fr.freshTuple(x, st)
		} else {
			fr.setFresh(x)
		}
	case token.XOR:
		c.abstracted(fr.fn.Name() + ": bitwise complement abstracted")
		fr.setFresh(x)
	default:
		c.errorf("%s: unop %s", fr.fn, x.Op)
		fr.setFresh(x)
	}
}

// wrap applies machine wrap-around for small integer types (int itself is unbounded: A-ARITH).
func (fr *Frame) wrap(v ssa.Value) {
	c := fr.c
	b, ok := types.Unalias(v.Type()).Underlying().(*types.Basic)
	if !ok {
		return
	}
	t := fr.vals[v].T.S
	w := wrapTerm(t, b.Kind())
	if w != t {
		fr.vals[v] = Val{T: Term{c.define(fr.tag+v.Name()+"w", "Int", w), SInt, v.Type()}}
	}
}

func wrapTerm(t string, k types.BasicKind) string {
	switch k {
	case types.Uint8:
		return app("mod", t, "256")
	case types.Uint16:
		return app("mod", t, "65536")
	case types.Uint32:
		return app("mod", t, "4294967296")
	case types.Int8:
		return fmt.Sprintf("(- (mod (+ %s 128) 256) 128)", t)
	case types.Int16:
		return fmt.Sprintf("(- (mod (+ %s 32768) 65536) 32768)", t)
	case types.Int32:
		return fmt.Sprintf("(- (mod (+ %s 2147483648) 4294967296) 2147483648)", t)
	}
	return t
}

func (fr *Frame) binop(x *ssa.BinOp, st *State) {
	c := fr.c
	a := fr.term(x.X, st)
	b := fr.term(x.Y, st)
	isStr := c.ss.IsSeq(a.Sort)
	switch x.Op {
	case token.ADD:
		if isStr {
			fr.setVal(x, app(string(a.Sort)+".cat", a.S, b.S))
			return
		}
		if a.Sort == "Real" {
			fr.setVal(x, app("+", a.S, b.S))
			return
		}
		fr.setVal(x, app("+", a.S, b.S))
		fr.wrap(x)
	case token.SUB:
		fr.setVal(x, app("-", a.S, b.S))
		if a.Sort == SInt {
			fr.wrap(x)
		}
	case token.MUL:
		fr.setVal(x, app("*", a.S, b.S))
		if a.Sort == SInt {
			fr.wrap(x)
		}
	case token.QUO:
		if a.Sort == "Real" {
			fr.setVal(x, app("/", a.S, b.S))
			return
		}
		fr.nopanic(st, "div", x.Pos(), not(app("=", b.S, "0")), "integer divide by zero")
		fr.setVal(x, goDiv(a.S, b.S))
	case token.REM:
		fr.nopanic(st, "div", x.Pos(), not(app("=", b.S, "0")), "integer divide by zero")
		fr.setVal(x, goRem(a.S, b.S))
	case token.EQL, token.NEQ:
		var s string
		switch {
		case isStr:
			s = app(string(a.Sort)+".eq", a.S, b.S)
			// comparison with a constant empty string: use the length
			if k, ok := x.Y.(*ssa.Const); ok && k.Value != nil && k.Value.Kind() == constant.String && constant.StringVal(k.Value) == "" {
				s = app("=", app(string(a.Sort)+".len", a.S), "0")
			}
			if k, ok := x.Y.(*ssa.Const); ok && k.Value == nil {
				// slice == nil
				s = fr.isNil(a)
			}
			if k, ok := x.X.(*ssa.Const); ok && k.Value == nil {
				s = fr.isNil(b)
			}
		default:
			s = app("=", a.S, b.S)
		}
		if x.Op == token.NEQ {
			s = not(s)
		}
		fr.setVal(x, s)
	case token.LSS, token.LEQ, token.GTR, token.GEQ:
		op := map[token.Token]string{token.LSS: "<", token.LEQ: "<=", token.GTR: ">", token.GEQ: ">="}[x.Op]
		if isStr {
			c.abstracted(fr.fn.Name() + ": string ordering comparison abstracted")
			fr.setFresh(x)
			return
		}
		fr.setVal(x, app(op, a.S, b.S))
	case token.AND, token.OR, token.XOR, token.AND_NOT, token.SHL, token.SHR:
		fr.bitop(x, a, b)
	default:
		c.errorf("%s: binop %s", fr.fn, x.Op)
		fr.setFresh(x)
	}
}

// isNil for slices: nil-ness is not modelled separately from emptiness; `s == nil` is an
// unconstrained boolean that implies len(s) == 0.
func (fr *Frame) isNil(a Term) string {
	c := fr.c
	n := c.freshConst("isnil", SBool)
	c.emit(fmt.Sprintf("(assert (=> %s (= (%s.len %s) 0)))", n, a.Sort, a.S))
	c.abstracted(fr.fn.Name() + ": slice == nil modelled as unconstrained boolean implying len == 0")
	return n
}

// bitop handles bit operations whose right operand is a constant (masks) exactly; others are abstracted.
func (fr *Frame) bitop(x *ssa.BinOp, a, b Term) {
	c := fr.c
	k, isConst := x.Y.(*ssa.Const)
	var kv int64
	ok := false
	if isConst && k.Value != nil {
		kv, ok = constant.Int64Val(constant.ToInt(k.Value))
	}
	if !ok {
		if k2, isC := x.X.(*ssa.Const); isC && k2.Value != nil && (x.Op == token.AND || x.Op == token.OR || x.Op == token.XOR) {
			if v, ok2 := constant.Int64Val(constant.ToInt(k2.Value)); ok2 {
				kv, ok = v, true
				a = b
			}
		}
	}
	nonneg := app(">=", a.S, "0")
	if ok && kv < 0 && x.Op == token.AND && ^kv < (1<<40) {
		// a & ^m = a - (a & m)
		fr.setVal(x, app("-", a.S, maskBits(a.S, ^kv)))
		return
	}
	if ok && kv >= 0 {
		switch x.Op {
		case token.SHL:
			if kv < 62 {
				fr.setVal(x, app("*", a.S, intLit(int64(1)<<uint(kv))))
				fr.wrap(x)
				return
			}
		case token.SHR:
			if kv < 62 {
				// arithmetic shift right = floor division
				fr.setVal(x, app("div", a.S, intLit(int64(1)<<uint(kv))))
				return
			}
		case token.AND:
			// mask of the form 2^n - 1
			if kv&(kv+1) == 0 {
				fr.setVal(x, app("mod", a.S, intLit(kv+1)))
				return
			}
			// single bit
			if kv&(kv-1) == 0 && kv > 0 {
				fr.setVal(x, app("*", intLit(kv), app("mod", app("div", a.S, intLit(kv)), "2")))
				return
			}
			// general constant mask: sum of its bits
			fr.setVal(x, maskBits(a.S, kv))
			return
		case token.OR:
			// a | k = a + (k &^ a) ; per bit
			fr.setVal(x, app("+", a.S, app("-", intLit(kv), maskBits(a.S, kv))))
			_ = nonneg
			return
		case token.AND_NOT:
			fr.setVal(x, app("-", a.S, maskBits(a.S, kv)))
			return
		case token.XOR:
			// a ^ k = a + k - 2*(a & k)
			fr.setVal(x, app("-", app("+", a.S, intLit(kv)), app("*", "2", maskBits(a.S, kv))))
			return
		}
	}
	c.abstracted(fmt.Sprintf("%s: bit operation %s with non-constant operand abstracted", fr.fn.Name(), x.Op))
	fr.setFresh(x)
}

// maskBits is a & k for constant k >= 0 (mathematical integers, two's complement for negatives via floor div/mod).
func maskBits(a string, k int64) string {
	var parts []string
	for bit := int64(1); bit <= k && bit > 0; bit <<= 1 {
		if k&bit != 0 {
			parts = append(parts, app("*", intLit(bit), app("mod", app("div", a, intLit(bit)), "2")))
		}
	}
	switch len(parts) {
	case 0:
		return "0"
	case 1:
		return parts[0]
	}
	return app("+", parts...)
}

func (fr *Frame) slice(x *ssa.Slice, st *State) {
	c := fr.c
	var base Term
	if _, isPtr := isPointer(x.X.Type()); isPtr {
		lv := fr.lvalOf(x.X, st)
		base = Term{fr.load(lv, st), c.ss.SortOf(lv.ty), lv.ty}
	} else {
		base = fr.term(x.X, st)
	}
	S := string(base.Sort)
	ln := app(S+".len", base.S)
	bn := c.define("slb", S, base.S)
	lo, hi := "0", app(S+".len", bn)
	if x.Low != nil {
		lo = fr.term(x.Low, st).S
	}
	if x.High != nil {
		hi = fr.term(x.High, st).S
	}
	_ = ln
	// For slices (not strings/arrays) the upper bound is cap, which is not modelled: we demand
	// hi <= len, which is stronger (reslicing beyond len within cap is reported as a potential panic).
	fr.nopanic(st, "slice", x.Pos(), and(app("<=", "0", lo), app("<=", lo, hi), app("<=", hi, app(S+".len", bn))), "slice bounds out of range")
	res := bn
	if x.High != nil {
		res = app(S+".take", res, hi)
	}
	if x.Low != nil {
		res = app(S+".drop", res, lo)
	}
	fr.setVal(x, res)
}

func (fr *Frame) convert(x *ssa.Convert, st *State) {
	c := fr.c
	t := fr.term(x.X, st)
	from := types.Unalias(x.X.Type()).Underlying()
	to := types.Unalias(x.Type()).Underlying()
	fb, fIsBasic := from.(*types.Basic)
	tb, tIsBasic := to.(*types.Basic)
	switch {
	case fIsBasic && tIsBasic && fb.Info()&types.IsInteger != 0 && tb.Info()&types.IsInteger != 0:
		fr.setVal(x, t.S)
		if !fitsIn(fb.Kind(), tb.Kind()) {
			fr.wrap(x)
		}
	case fIsBasic && tIsBasic && fb.Info()&types.IsInteger != 0 && tb.Info()&types.IsString != 0:
		// string(rune)
		fr.setVal(x, app("utf8.enc1", t.S))
	case fIsBasic && fb.Info()&types.IsString != 0 && isSliceOf(to, types.Int32):
		fr.setVal(x, app("utf8.dec", t.S))
	case tIsBasic && tb.Info()&types.IsString != 0 && isSliceOf(from, types.Int32):
		fr.setVal(x, app("utf8.enc", t.S))
	case fIsBasic && fb.Info()&types.IsString != 0 && isSliceOf(to, types.Uint8):
		fr.setVal(x, t.S)
	case tIsBasic && tb.Info()&types.IsString != 0 && isSliceOf(from, types.Uint8):
		fr.setVal(x, t.S)
	case fIsBasic && tIsBasic && fb.Info()&types.IsString != 0 && tb.Info()&types.IsString != 0:
		fr.setVal(x, t.S)
	case fIsBasic && tIsBasic && (fb.Info()&types.IsFloat != 0 || tb.Info()&types.IsFloat != 0):
		if fb.Info()&types.IsInteger != 0 {
			fr.setVal(x, app("to_real", t.S))
		} else if tb.Info()&types.IsInteger != 0 {
			// truncation toward zero
			fr.setVal(x, fmt.Sprintf("(ite (>= %s 0.0) (to_int %s) (- (to_int (- %s))))", t.S, t.S, t.S))
		} else {
			fr.setVal(x, t.S)
		}
	default:
		if c.ss.SortOf(x.X.Type()) == c.ss.SortOf(x.Type()) {
			fr.setVal(x, t.S)
			return
		}
		c.abstracted(fmt.Sprintf("%s: conversion %v -> %v abstracted", fr.fn.Name(), x.X.Type(), x.Type()))
		fr.setFresh(x)
	}
}

func isSliceOf(t types.Type, k types.BasicKind) bool {
	s, ok := t.(*types.Slice)
	if !ok {
		return false
	}
	b, ok := types.Unalias(s.Elem()).Underlying().(*types.Basic)
	return ok && b.Kind() == k
}

func fitsIn(from, to types.BasicKind) bool {
	rng := func(k types.BasicKind) (lo, hi float64) {
		switch k {
		case types.Uint8:
			return 0, 255
		case types.Int8:
			return -128, 127
		case types.Uint16:
			return 0, 65535
		case types.Int16:
			return -32768, 32767
		case types.Int32:
			return -2147483648, 2147483647
		case types.Uint32:
			return 0, 4294967295
		case types.Uint, types.Uint64, types.Uintptr:
			return 0, 1e30
		}
		return -1e30, 1e30
	}
	fl, fh := rng(from)
	tl, th := rng(to)
	return fl >= tl && fh <= th
}

func (fr *Frame) typeAssert(x *ssa.TypeAssert, st *State) {
	c := fr.c
	t := fr.term(x.X, st)
	var okT, val string
	srt := c.ss.SortOf(x.AssertedType)
	if _, isIface := types.Unalias(x.AssertedType).Underlying().(*types.Interface); isIface {
		okT = c.freshConst("taok", SBool)
		c.emit(fmt.Sprintf("(assert (=> %s (not (= %s 0))))", okT, t.S))
		val = t.S
	} else {
		okT = and(not(app("=", t.S, "0")), app("=", app("typeof!", t.S), intLit(int64(c.ss.TypeID(x.AssertedType)))))
		if srt == SInt && isRefLike(x.AssertedType) {
			val = t.S
		} else {
			c.ss.NeedBox(srt)
			val = app("unbox!"+string(srt), t.S)
		}
	}
	if x.CommaOk {
		okN := c.define("taok", "Bool", okT)
		v := c.define(fr.tag+x.Name()+".0", srt, ite(okN, val, c.zeroValue(x.AssertedType)))
		fr.vals[x] = Val{Tup: []Val{{T: Term{v, srt, x.AssertedType}}, {T: Term{okN, SBool, tBool}}}}
		return
	}
	fr.nopanic(st, "assert", x.Pos(), okT, "type assertion may fail")
	n := c.define(fr.tag+x.Name(), srt, val)
	fr.vals[x] = Val{T: Term{n, srt, x.AssertedType}}
	c.assumeRange(n, x.AssertedType)
}

func (fr *Frame) lookup(x *ssa.Lookup, st *State) {
	c := fr.c
	t := fr.term(x.X, st)
	k := fr.term(x.Index, st).S
	if c.ss.IsSeq(t.Sort) {
		// string index
		fr.nopanic(st, "index", x.Pos(), and(app("<=", "0", k), app("<", k, app(string(t.Sort)+".len", t.S))), "index out of range")
		fr.setVal(x, app(string(t.Sort)+".at", t.S, k))
		c.assumeRange(fr.vals[x].T.S, x.Type())
		return
	}
	m := types.Unalias(x.X.Type()).Underlying().(*types.Map)
	mk, dk := mapKey(x.X.Type()), mapDomKey(x.X.Type())
	in := c.define("mapin", "Bool", and(not(app("=", t.S, "0")), app("select", app("select", c.heapGet(st, dk), t.S), k)))
	vs := c.ss.SortOf(m.Elem())
	val := c.define("mapval", vs, ite(in, app("select", app("select", c.heapGet(st, mk), t.S), k), c.zeroValue(m.Elem())))
	c.assumeRange(val, m.Elem())
	if isRefLike(m.Elem()) {
		if _, isIface := types.Unalias(m.Elem()).Underlying().(*types.Interface); !isIface {
			c.assume("true", or(app("=", val, "0"), app("select", c.heapGet(st, "alloc"), val)))
		}
	}
	if x.CommaOk {
		fr.vals[x] = Val{Tup: []Val{{T: Term{val, vs, m.Elem()}}, {T: Term{in, SBool, tBool}}}}
		return
	}
	fr.vals[x] = Val{T: Term{val, vs, m.Elem()}}
}

// Range / Next over strings and maps.  The iterator position is a function-private cell.
func (fr *Frame) rangeInit(x *ssa.Range, st *State) {
	c := fr.c
	key := "it:" + fr.tag + x.Name()
	c.heapSort[key] = "Int"
	c.heapSet(st, key, "0")
	t := fr.term(x.X, st)
	fr.vals[x] = Val{T: t}
	if _, isMap := types.Unalias(x.X.Type()).Underlying().(*types.Map); isMap {
		// ghost sequence of distinct keys covering the domain, in unspecified order
		m := types.Unalias(x.X.Type()).Underlying().(*types.Map)
		ks := c.ss.SortOf(m.Key())
		S := c.ss.SeqOf(ks)
		seq := c.freshConst("mapkeys", S)
		dom := app("select", c.heapGet(st, mapDomKey(x.X.Type())), t.S)
		domN := c.define("mapdom", fmt.Sprintf("(Array %s Bool)", ks), dom)
		c.emit(fmt.Sprintf("(assert (forall ((i Int)) (! (=> (and (<= 0 i) (< i (%s.len %s))) (select %s (%s.at %s i))) :pattern ((%s.at %s i)))))", S, seq, domN, S, seq, S, seq))
		c.emit(fmt.Sprintf("(assert (forall ((i Int) (j Int)) (! (=> (and (<= 0 i) (< i j) (< j (%s.len %s))) (not (= (%s.at %s i) (%s.at %s j)))) :pattern ((%s.at %s i) (%s.at %s j)))))", S, seq, S, seq, S, seq, S, seq, S, seq))
		c.emit(fmt.Sprintf("(assert (=> (= %s 0) (= (%s.len %s) 0)))", t.S, S, seq))
		if fr.iterSeq == nil {
			fr.iterSeq = map[ssa.Value]string{}
		}
		fr.iterSeq[x] = seq
		// the key sequence covers the domain: every key in the domain occurs (needed for "for all entries" reasoning)
		idxf := c.fresh("mapidx")
		c.emit(fmt.Sprintf("(declare-fun %s (%s) Int)", idxf, ks))
		c.emit(fmt.Sprintf("(assert (forall ((k %s)) (! (=> (select %s k) (and (<= 0 (%s k)) (< (%s k) (%s.len %s)) (= (%s.at %s (%s k)) k))) :pattern ((select %s k)))))", ks, domN, idxf, idxf, S, seq, S, seq, idxf, domN))
	}
}

func (fr *Frame) next(x *ssa.Next, st *State) {
	c := fr.c
	rng, ok := x.Iter.(*ssa.Range)
	if !ok {
		c.errorf("%s: next on non-range", fr.fn)
		fr.freshTuple(x, st)
		return
	}
	key := "it:" + fr.tag + rng.Name()
	pos := st.heap[key]
	if pos == "" {
		c.heapSort[key] = "Int"
		pos = c.freshConst("itpos", SInt)
	}
	tup := x.Type().(*types.Tuple)
	if x.IsString {
		s := fr.term(rng.X, st)
		S := string(s.Sort)
		// ok = pos < len(s); key = pos; value = some rune; width 1..4 (1 and the byte itself when < 0x80)
		okN := c.define("itok", "Bool", app("<", pos, app(S+".len", s.S)))
		w := c.freshConst("itw", SInt)
		r := c.freshConst("itr", SInt)
		b0 := app(S+".at", s.S, pos)
		c.emit(fmt.Sprintf("(assert (=> %s (and (<= 1 %s) (<= %s 4) (<= (+ %s %s) (%s.len %s)) (<= 0 %s) (<= %s 1114111) (=> (< %s 128) (and (= %s 1) (= %s %s))) (=> (>= %s 128) (>= %s 128)))))",
			okN, w, w, pos, w, S, s.S, r, r, b0, w, r, b0, b0, r))
		c.assume("true", app(">=", pos, "0"))
		// range over a string and []rune(string) are the same UTF-8 decoding: the runes of the prefix consumed
		// after this step are the runes of the prefix consumed before it, followed by this rune
		if S == "Sq_Int" {
			c.emit(fmt.Sprintf("(assert (=> %s (= (utf8.dec (Sq_Int.take %s (+ %s %s))) (Sq_Int.cat (utf8.dec (Sq_Int.take %s %s)) (Sq_Int.unit %s)))))", okN, s.S, pos, w, s.S, pos, r))
		}
		c.heapSet(st, key, ite(okN, app("+", pos, w), pos))
		fr.vals[x] = Val{Tup: []Val{{T: Term{okN, SBool, tBool}}, {T: Term{pos, SInt, tup.At(1).Type()}}, {T: Term{r, SInt, tup.At(2).Type()}}}}
		return
	}
	// map
	seq := fr.iterSeq[rng]
	m := types.Unalias(rng.X.Type()).Underlying().(*types.Map)
	ks, vs := c.ss.SortOf(m.Key()), c.ss.SortOf(m.Elem())
	S := string(c.ss.SeqOf(ks))
	okN := c.define("itok", "Bool", app("<", pos, app(S+".len", seq)))
	c.assume("true", app(">=", pos, "0"))
	k := c.define("itk", ks, app(S+".at", seq, pos))
	mt := fr.term(rng.X, st)
	v := c.define("itv", vs, app("select", app("select", c.heapGet(st, mapKey(rng.X.Type())), mt.S), k))
	c.assumeRange(v, m.Elem())
	c.assumeRange(k, m.Key())
	if isRefLike(m.Elem()) {
		if _, isIface := types.Unalias(m.Elem()).Underlying().(*types.Interface); !isIface {
			c.assume(okN, or(app("=", v, "0"), app("select", c.heapGet(st, "alloc"), v)))
		}
	}
	c.heapSet(st, key, ite(okN, app("+", pos, "1"), pos))
	fr.vals[x] = Val{Tup: []Val{{T: Term{okN, SBool, tBool}}, {T: Term{k, ks, m.Key()}}, {T: Term{v, vs, m.Elem()}}}}
}

// ---------------------------------------------------------------------------------------
// A-ALIAS guard.  Slices have value semantics in the model; that is only faithful while no two live
// locations share a backing array.  A slice value loaded from one location and stored (or handed to a
// callee that retains it) into another location, without a copy in between, creates such sharing: it is
// reported as an obligation of kind "alias" that cannot be discharged (unless the contract says
// allow_alias, which is then listed as an assumption).

func isMutableSlice(t types.Type) bool {
	s, ok := types.Unalias(t).Underlying().(*types.Slice)
	if !ok {
		return false
	}
	_ = s
	return true
}

// sliceOrigin follows reslicing / phis / type changes back to the load the slice value came from
// (nil when it was freshly built: make, append, conversion from a string, call result, parameter).
func sliceOrigin(v ssa.Value, depth int) *ssa.UnOp {
	if depth > 6 {
		return nil
	}
	switch x := v.(type) {
	case *ssa.UnOp:
		if x.Op == token.MUL {
			return x
		}
	case *ssa.Slice:
		if _, isPtr := x.X.Type().Underlying().(*types.Pointer); isPtr {
			return nil
		}
		return sliceOrigin(x.X, depth+1)
	case *ssa.ChangeType:
		return sliceOrigin(x.X, depth+1)
	case *ssa.Phi:
		var o *ssa.UnOp
		for _, e := range x.Edges {
			if eo := sliceOrigin(e, depth+1); eo != nil {
				o = eo
			}
		}
		return o
	}
	return nil
}

func sameLoc(a, b *LVal) bool {
	if a == nil || b == nil {
		return false
	}
	if a.kind != b.kind || a.key != b.key || a.ref != b.ref || a.idx != b.idx || a.field != b.field {
		return false
	}
	if a.parent != nil || b.parent != nil {
		return sameLoc(a.parent, b.parent)
	}
	return true
}

// structHasSlice: a struct type with a (mutable) slice field, directly or in a nested struct value.
func structHasSlice(t types.Type, depth int) bool {
	st, ok := types.Unalias(t).Underlying().(*types.Struct)
	if !ok || depth > 3 {
		return false
	}
	for i := 0; i < st.NumFields(); i++ {
		ft := st.Field(i).Type()
		if isMutableSlice(ft) || structHasSlice(ft, depth+1) {
			return true
		}
	}
	return false
}

func (fr *Frame) aliasCheckStore(x *ssa.Store, st *State) {
	c := fr.c
	if fr.top && c.fc != nil && structHasSlice(x.Val.Type(), 0) {
		// a whole struct value loaded through a pointer and stored elsewhere: its slice fields are shared
		if u, ok := x.Val.(*ssa.UnOp); ok && u.Op == token.MUL {
			src := fr.lvalOf(u.X, st)
			dst := fr.lvalOf(x.Addr, st)
			if !sameLoc(src, dst) && src.kind != lvLocal && dst.kind != lvLocal {
				if c.fc.AllowAlias != "" {
					c.abstracted("alias allowed: " + c.fc.AllowAlias)
					return
				}
				_, line := c.eng.srcLine(x.Pos())
				ob := c.obligation("alias", "", x.Pos(), line, st.reach, "false", nil)
				c.continueAfterFalse(st)
				ob.Note = "a struct value with slice fields is copied from one object to another: the copies share the backing arrays of those slices (outside the value-semantics model, A-ALIAS)"
			}
		}
		return
	}
	if !fr.top || c.fc == nil || !isMutableSlice(x.Val.Type()) {
		return
	}
	if dst := fr.lvalOf(x.Addr, st); dst.kind != lvLocal {
		fr.aliasCheckKeep(x.Val, x.Pos(), st)
	}
	o := sliceOrigin(x.Val, 0)
	if o == nil {
		return
	}
	src, ok := fr.prov[o]
	if !ok {
		return
	}
	dst := fr.lvalOf(x.Addr, st)
	if sameLoc(src, dst) {
		return
	}
	if dst.kind == lvLocal || src.kind == lvLocal {
		return
	}
	if c.fc.AllowAlias != "" {
		c.abstracted("alias allowed: " + c.fc.AllowAlias)
		return
	}
	_, line := c.eng.srcLine(x.Pos())
	ob := c.obligation("alias", "", x.Pos(), line, st.reach, "false", nil)
	c.continueAfterFalse(st)
	ob.Note = "a slice loaded from one location is stored into another without a copy: the two share a backing array, in-place writes through one are visible through the other (outside the value-semantics model, A-ALIAS)"
}

// aliasCheckCall: a loaded slice handed to a callee that retains the parameter.
func (fr *Frame) aliasCheckCall(fc *FuncContract, callee *ssa.Function, cc *ssa.CallCommon, st *State, pos token.Pos) {
	c := fr.c
	if !fr.top || c.fc == nil || callee == nil || len(fc.Retains) == 0 {
		return
	}
	for i, p := range callee.Params {
		if i >= len(cc.Args) || !isMutableSlice(p.Type()) {
			continue
		}
		ret := false
		for _, r := range fc.Retains {
			if r == p.Name() {
				ret = true
			}
		}
		if !ret {
			continue
		}
		shared := false
		if o := sliceOrigin(cc.Args[i], 0); o != nil {
			if _, ok := fr.prov[o]; ok {
				shared = true
			}
		}
		if kind, src := fr.sliceSource(cc.Args[i], 0); kind == "aliasresult" || (kind == "param" && !fr.retainsParam(src)) {
			shared = true
		}
		if !shared {
			continue
		}
		if c.fc.AllowAlias != "" {
			c.abstracted("alias allowed: " + c.fc.AllowAlias)
			continue
		}
		_, line := c.eng.srcLine(pos)
		ob := c.obligation("alias", "", pos, line, st.reach, "false", nil)
		c.continueAfterFalse(st)
		ob.Note = "a slice loaded from a location is handed to " + shortFuncName(callee.String()) + ", which keeps it (retains " + p.Name() + "): the two locations share a backing array (outside the value-semantics model, A-ALIAS)"
	}
}

// sliceSource classifies where a slice value's backing array comes from, looking through reslicing,
// conversions and phis: "param" (a slice parameter of the function), "aliasresult" (the result of a call
// whose contract says returns_alias), "heap" (loaded from memory or from a map entry), or "" (fresh:
// make, append to a fresh slice, conversion from a string, a literal, an unknown call result).
func (fr *Frame) sliceSource(v ssa.Value, depth int) (string, ssa.Value) {
	if depth > 6 {
		return "", nil
	}
	switch x := v.(type) {
	case *ssa.Parameter:
		if isMutableSlice(x.Type()) {
			return "param", x
		}
	case *ssa.UnOp:
		if x.Op == token.MUL {
			if a, ok := x.X.(*ssa.Alloc); ok && !a.Heap {
				// a local variable (named result, temporary): whatever was stored into it
				if refs := a.Referrers(); refs != nil {
					for _, r := range *refs {
						if sto, ok := r.(*ssa.Store); ok && sto.Addr == a {
							if k, o := fr.sliceSource(sto.Val, depth+1); k != "" {
								return k, o
							}
						}
					}
				}
				return "", nil
			}
			if v, ok := fr.vals[x.X]; ok && v.LV != nil && v.LV.kind == lvLocal {
				return "", nil
			}
			return "heap", x
		}
	case *ssa.Lookup:
		if _, isMap := types.Unalias(x.X.Type()).Underlying().(*types.Map); isMap {
			return "heap", x
		}
	case *ssa.Slice:
		if _, isPtr := x.X.Type().Underlying().(*types.Pointer); isPtr {
			return "", nil
		}
		return fr.sliceSource(x.X, depth+1)
	case *ssa.ChangeType:
		return fr.sliceSource(x.X, depth+1)
	case *ssa.Phi:
		for _, e := range x.Edges {
			if k, o := fr.sliceSource(e, depth+1); k != "" {
				return k, o
			}
		}
	case *ssa.Call:
		if callee := x.Common().StaticCallee(); callee != nil {
			if fc := fr.c.eng.cs.Funcs[callee.String()]; fc != nil && fc.ReturnsAlias != "" {
				return "aliasresult", x
			}
		}
	}
	return "", nil
}

func (fr *Frame) retainsParam(p ssa.Value) bool {
	for _, r := range fr.c.fc.Retains {
		if r == p.Name() {
			return true
		}
	}
	// a renamed parameter: the contract may still use the recorded name
	if meta := fr.c.eng.localsMeta[fr.fn.String()]; meta != nil && len(meta.Params) == len(fr.fn.Params) {
		for i, q := range fr.fn.Params {
			if q == p {
				for _, r := range fr.c.fc.Retains {
					if r == meta.Params[i] {
						return true
					}
				}
			}
		}
	}
	return false
}

// aliasCheckKeep: the function stores v into the heap (field, element, map entry). If v's array belongs
// to the caller (a slice parameter not declared `retains`) or to another holder (the result of a
// returns_alias call), the stored location and that holder share the array: outside the value-semantics
// model, so it is an obligation (A-ALIAS made explicit), not an assumption.
func (fr *Frame) aliasCheckKeep(v ssa.Value, pos token.Pos, st *State) {
	c := fr.c
	if !fr.top || c.fc == nil || !isMutableSlice(v.Type()) {
		return
	}
	kind, src := fr.sliceSource(v, 0)
	var note string
	switch kind {
	case "param":
		if fr.retainsParam(src) {
			return
		}
		note = "the slice parameter " + src.Name() + " is stored without a copy: the caller's slice and this location share a backing array (declare `retains " + src.Name() + "` if the function is meant to keep it; callers are then checked)"
	case "aliasresult":
		note = "the result of " + shortFuncName(src.(*ssa.Call).Common().StaticCallee().String()) + " (returns_alias: it is also kept by its owner) is stored without a copy: two locations share a backing array"
	default:
		return
	}
	if c.fc.AllowAlias != "" {
		c.abstracted("alias allowed: " + c.fc.AllowAlias)
		return
	}
	_, line := c.eng.srcLine(pos)
	ob := c.obligation("alias", "", pos, line, st.reach, "false", nil)
	c.continueAfterFalse(st)
	ob.Note = note + " (outside the value-semantics model, A-ALIAS)"
}

// aliasCheckReturn: returning a slice that stays stored in the heap hands the caller a second reference
// to the same array; the contract must say so (returns_alias), which makes callers' uses checkable.
func (fr *Frame) aliasCheckReturn(x *ssa.Return, st *State) {
	c := fr.c
	if !fr.top || c.fc == nil || c.fc.ReturnsAlias != "" {
		return
	}
	for _, r := range x.Results {
		if !isMutableSlice(r.Type()) {
			continue
		}
		kind, src := fr.sliceSource(r, 0)
		if kind != "heap" && kind != "aliasresult" {
			continue
		}
		if c.fc.AllowAlias != "" {
			c.abstracted("alias allowed: " + c.fc.AllowAlias)
			continue
		}
		_, line := c.eng.srcLine(x.Pos())
		ob := c.obligation("alias", "", x.Pos(), line, st.reach, "false", nil)
		c.continueAfterFalse(st)
		ob.Note = "a slice that stays stored in the heap (" + src.Name() + ") is returned without a copy: the caller and the owner share a backing array; declare `returns_alias` so that callers are checked (outside the value-semantics model, A-ALIAS)"
	}
}
