package main

// Translation of contract expressions to SMT terms, typed with Go types.

import (
	"fmt"
	"go/types"
	"strings"

	"golang.org/x/tools/go/ssa"
)

type Env struct {
	c      *FnCtx
	vars   map[string]Term
	lookup func(name string) (Term, bool) // fallback resolver (locals at a program point)
	cur    *State
	old    *State
	pkg    string // package path for name resolution
	depth  int
	bound  map[string]bool
}

type evalErr string

func (en *Env) fail(f string, a ...interface{}) { panic(evalErr(fmt.Sprintf(f, a...))) }

func (en *Env) with(vars map[string]Term) *Env {
	n := *en
	n.vars = map[string]Term{}
	for k, v := range en.vars {
		n.vars[k] = v
	}
	for k, v := range vars {
		n.vars[k] = v
	}
	return &n
}

// Eval translates e; errors are returned, not panicked.
func (en *Env) Eval(e Expr) (t Term, err error) {
	defer func() {
		if r := recover(); r != nil {
			if ee, ok := r.(evalErr); ok {
				err = fmt.Errorf("%s", string(ee))
				return
			}
			panic(r)
		}
	}()
	return en.eval(e), nil
}

func (en *Env) EvalBool(e Expr) (string, error) {
	t, err := en.Eval(e)
	if err != nil {
		return "", err
	}
	if t.Sort != SBool {
		return "", fmt.Errorf("expression %s is not boolean", exprString(e))
	}
	return t.S, nil
}

var tInt = types.Typ[types.Int]
var tBool = types.Typ[types.Bool]
var tString = types.Typ[types.String]

func (en *Env) mk(s string, ty types.Type) Term {
	return Term{S: s, Sort: en.c.ss.SortOf(ty), Ty: ty}
}

func isPointer(t types.Type) (*types.Pointer, bool) {
	if t == nil {
		return nil, false
	}
	p, ok := types.Unalias(t).Underlying().(*types.Pointer)
	return p, ok
}

func (en *Env) eval(e Expr) Term {
	c := en.c
	switch x := e.(type) {
	case EInt:
		return Term{intLit(x.V), SInt, tInt}
	case EBool:
		if x.V {
			return Term{"true", SBool, tBool}
		}
		return Term{"false", SBool, tBool}
	case EStr:
		return Term{c.ss.StrLit(x.V), c.ss.SeqOf(SInt), tString}
	case ENil:
		return Term{"0", SInt, types.Typ[types.UntypedNil]}
	case EIdent:
		if t, ok := en.vars[x.Name]; ok {
			return t
		}
		if en.lookup != nil {
			if t, ok := en.lookup(x.Name); ok {
				return t
			}
		}
		// package-level constant?
		if p := c.eng.tpkgs[en.pkg]; p != nil {
			if obj := p.Scope().Lookup(x.Name); obj != nil {
				if cn, ok := obj.(*types.Const); ok {
					return en.constTerm(cn)
				}
				if v, ok := obj.(*types.Var); ok {
					return en.globalRead(p, v)
				}
			}
		}
		en.fail("unknown identifier %s", x.Name)
	case EOld:
		if en.old == nil {
			en.fail("old() not available here")
		}
		n := *en
		n.cur = en.old
		if en.c.ghostOld != nil {
			n.vars = map[string]Term{}
			for k, v := range en.vars {
				n.vars[k] = v
			}
			for k, v := range en.c.ghostOld {
				n.vars[k] = v
			}
		}
		return n.eval(x.X)
	case EUn:
		switch x.Op {
		case "!":
			t := en.eval(x.X)
			en.wantBool(t, e)
			return Term{not(t.S), SBool, tBool}
		case "-":
			t := en.eval(x.X)
			return Term{app("-", t.S), SInt, t.Ty}
		case "*":
			t := en.eval(x.X)
			return en.deref(t)
		case "&":
			en.fail("& not supported in contracts")
		}
	case EBin:
		return en.evalBin(x)
	case ESel:
		// qualified constant pkg.Name ?
		if id, ok := x.X.(EIdent); ok {
			if _, isVar := en.vars[id.Name]; !isVar {
				if p := c.eng.byName[id.Name]; p != nil && (en.lookup == nil || !en.lookupOK(id.Name)) {
					if obj := p.Scope().Lookup(x.Name); obj != nil {
						if cn, ok := obj.(*types.Const); ok {
							return en.constTerm(cn)
						}
						if v, ok := obj.(*types.Var); ok {
							return en.globalRead(p, v)
						}
					}
				}
			}
		}
		t := en.eval(x.X)
		return en.field(t, x.Name)
	case EIdx:
		t := en.eval(x.X)
		i := en.eval(x.I)
		return en.index(t, i)
	case ESlice:
		t := en.eval(x.X)
		if !c.ss.IsSeq(t.Sort) {
			en.fail("slicing a non-sequence %s", exprString(x.X))
		}
		S := string(t.Sort)
		res := t.S
		if x.Hi != nil {
			hi := en.eval(x.Hi)
			res = app(S+".take", res, hi.S)
		}
		if x.Lo != nil {
			lo := en.eval(x.Lo)
			res = app(S+".drop", res, lo.S)
		}
		return Term{res, t.Sort, en.sliceTy(t.Ty)}
	case EQuant:
		if ts, ok := x.Lo.(EStr); ok && x.Hi == nil {
			ty, err := c.eng.resolveType(en.pkg, ts.V)
			if err != nil {
				en.fail("%v", err)
			}
			v := fmt.Sprintf("%s!o%d", x.Var, en.depth)
			sub := en.with(map[string]Term{x.Var: {v, SInt, ty}})
			sub.depth = en.depth + 1
			body := sub.eval(x.Body)
			en.wantBool(body, x.Body)
			return Term{fmt.Sprintf("(forall ((%s Int)) %s)", v, implies(not(app("=", v, "0")), body.S)), SBool, tBool}
		}
		if mc, ok := x.Lo.(ECall); ok && x.Hi == nil && mc.Fun == "$mapdom" {
			m := en.eval(mc.Args[0])
			mt, ok := types.Unalias(m.Ty).Underlying().(*types.Map)
			if !ok {
				en.fail("allkeys: not a map")
			}
			ks := c.ss.SortOf(mt.Key())
			v := fmt.Sprintf("%s!k%d", x.Var, en.depth)
			sub := en.with(map[string]Term{x.Var: {v, ks, mt.Key()}})
			sub.depth = en.depth + 1
			body := sub.eval(x.Body)
			en.wantBool(body, x.Body)
			in := and(not(app("=", m.S, "0")), app("select", app("select", c.heapGet(en.cur, mapDomKey(m.Ty)), m.S), v))
			if !x.All {
				return Term{fmt.Sprintf("(exists ((%s %s)) %s)", v, ks, and(in, body.S)), SBool, tBool}
			}
			return Term{fmt.Sprintf("(forall ((%s %s)) %s)", v, ks, implies(in, body.S)), SBool, tBool}
		}
		lo := en.eval(x.Lo)
		hi := en.eval(x.Hi)
		v := fmt.Sprintf("%s!q%d", x.Var, en.depth)
		sub := en.with(map[string]Term{x.Var: {v, SInt, tInt}})
		sub.depth = en.depth + 1
		body := sub.eval(x.Body)
		en.wantBool(body, x.Body)
		rng := and(app("<=", lo.S, v), app("<", v, hi.S))
		if x.All {
			return Term{fmt.Sprintf("(forall ((%s Int)) %s)", v, implies(rng, body.S)), SBool, tBool}
		}
		return Term{fmt.Sprintf("(exists ((%s Int)) %s)", v, and(rng, body.S)), SBool, tBool}
	case ECall:
		return en.evalCall(x)
	}
	en.fail("cannot evaluate %s", exprString(e))
	return Term{}
}

func (en *Env) lookupOK(name string) bool {
	_, ok := en.lookup(name)
	return ok
}

func (en *Env) sliceTy(t types.Type) types.Type {
	if t == nil {
		return nil
	}
	switch u := types.Unalias(t).Underlying().(type) {
	case *types.Array:
		return types.NewSlice(u.Elem())
	}
	return t
}

func (en *Env) constTerm(cn *types.Const) Term {
	v := cn.Val()
	return constToTerm(en.c, v.ExactString(), v.Kind().String(), cn.Type(), v)
}

func (en *Env) globalRead(p *types.Package, v *types.Var) Term {
	key := "g:" + p.Path() + "." + v.Name()
	keyTypes[key] = v.Type()
	return en.mk(en.c.heapGet(en.cur, key), v.Type())
}

func (en *Env) wantBool(t Term, e Expr) {
	if t.Sort != SBool {
		en.fail("%s is not boolean (sort %s)", exprString(e), t.Sort)
	}
}

func (en *Env) deref(t Term) Term {
	p, ok := isPointer(t.Ty)
	if !ok {
		en.fail("dereference of non-pointer (type %v)", t.Ty)
	}
	c := en.c
	if _, isStruct := structOf(p.Elem()); isStruct {
		return c.loadStruct(en.cur, t.S, p.Elem())
	}
	key := cellKey(p.Elem())
	return en.mk(app("select", c.heapGet(en.cur, key), t.S), p.Elem())
}

func (en *Env) field(t Term, name string) Term {
	c := en.c
	if t.Ty == nil {
		en.fail("field %s of untyped term", name)
	}
	// ghost fields: <Type>.$name declared via spec? not supported yet
	if p, ok := isPointer(t.Ty); ok {
		st, ok := structOf(p.Elem())
		if !ok {
			en.fail("field %s of pointer to non-struct %v", name, p.Elem())
		}
		for i := 0; i < st.NumFields(); i++ {
			if st.Field(i).Name() == name {
				key := fieldKey(p.Elem(), name)
				return en.mk(app("select", c.heapGet(en.cur, key), t.S), st.Field(i).Type())
			}
		}
		// promoted through embedded struct?
		for i := 0; i < st.NumFields(); i++ {
			f := st.Field(i)
			if f.Embedded() {
				inner := en.field(t, f.Name())
				if r, ok := en.tryField(inner, name); ok {
					return r
				}
			}
		}
		en.fail("type %v has no field %s", p.Elem(), name)
	}
	if st, ok := structOf(t.Ty); ok {
		info := c.ss.Struct(c.ss.SortOf(t.Ty))
		for i := 0; i < st.NumFields(); i++ {
			if st.Field(i).Name() == name {
				return en.mk(app(info.Fields[i].Name, t.S), st.Field(i).Type())
			}
		}
		en.fail("struct %v has no field %s", t.Ty, name)
	}
	en.fail("field %s of non-struct %v", name, t.Ty)
	return Term{}
}

func (en *Env) tryField(t Term, name string) (r Term, ok bool) {
	defer func() {
		if rec := recover(); rec != nil {
			if _, is := rec.(evalErr); is {
				ok = false
				return
			}
			panic(rec)
		}
	}()
	return en.field(t, name), true
}

func (en *Env) index(t, i Term) Term {
	c := en.c
	if c.ss.IsSeq(t.Sort) {
		var et types.Type
		if t.Ty != nil {
			switch u := types.Unalias(t.Ty).Underlying().(type) {
			case *types.Slice:
				et = u.Elem()
			case *types.Array:
				et = u.Elem()
			case *types.Basic:
				et = types.Typ[types.Byte]
			}
		}
		return Term{app(string(t.Sort)+".at", t.S, i.S), c.ss.Elem(t.Sort), et}
	}
	if t.Ty != nil {
		if m, ok := types.Unalias(t.Ty).Underlying().(*types.Map); ok {
			key := mapKey(t.Ty)
			return en.mk(app("select", app("select", c.heapGet(en.cur, key), t.S), i.S), m.Elem())
		}
	}
	en.fail("indexing a non-sequence")
	return Term{}
}

func (en *Env) evalBin(x EBin) Term {
	switch x.Op {
	case "&&", "||", "==>", "<==>":
		a := en.eval(x.X)
		en.wantBool(a, x.X)
		b := en.eval(x.Y)
		en.wantBool(b, x.Y)
		switch x.Op {
		case "&&":
			return Term{and(a.S, b.S), SBool, tBool}
		case "||":
			return Term{or(a.S, b.S), SBool, tBool}
		case "==>":
			return Term{implies(a.S, b.S), SBool, tBool}
		default:
			return Term{app("=", a.S, b.S), SBool, tBool}
		}
	}
	a := en.eval(x.X)
	b := en.eval(x.Y)
	switch x.Op {
	case "==", "!=":
		var s string
		switch {
		case en.c.ss.IsSeq(a.Sort) && b.Ty == types.Typ[types.UntypedNil]:
			s = app("=", app(string(a.Sort)+".len", a.S), "0")
		case en.c.ss.IsSeq(b.Sort) && a.Ty == types.Typ[types.UntypedNil]:
			s = app("=", app(string(b.Sort)+".len", b.S), "0")
		case a.Sort != b.Sort:
			en.fail("comparing %s (%s) with %s (%s)", exprString(x.X), a.Sort, exprString(x.Y), b.Sort)
		case en.c.ss.IsSeq(a.Sort):
			s = app(string(a.Sort)+".eq", a.S, b.S)
		default:
			s = app("=", a.S, b.S)
		}
		if x.Op == "!=" {
			s = not(s)
		}
		return Term{s, SBool, tBool}
	case "<", "<=", ">", ">=":
		if a.Sort != SInt || b.Sort != SInt {
			en.fail("ordering comparison on non-integers in %s", exprString(x))
		}
		return Term{app(x.Op, a.S, b.S), SBool, tBool}
	case "+":
		if en.c.ss.IsSeq(a.Sort) && a.Sort == b.Sort {
			return Term{app(string(a.Sort)+".cat", a.S, b.S), a.Sort, a.Ty}
		}
		fallthrough
	case "-", "*":
		if a.Sort != SInt || b.Sort != SInt {
			en.fail("arithmetic on non-integers in %s", exprString(x))
		}
		return Term{app(x.Op, a.S, b.S), SInt, a.Ty}
	case "/":
		return Term{goDiv(a.S, b.S), SInt, a.Ty}
	case "%":
		return Term{goRem(a.S, b.S), SInt, a.Ty}
	}
	en.fail("operator %s", x.Op)
	return Term{}
}

// Go's truncated division / remainder over mathematical integers.
func goDiv(a, b string) string {
	return fmt.Sprintf("(ite (>= %s 0) (div %s %s) (- (div (- %s) %s)))", a, a, b, a, b)
}
func goRem(a, b string) string {
	return fmt.Sprintf("(- %s (* %s %s))", a, b, goDiv(a, b))
}

func (en *Env) evalCall(x ECall) Term {
	c := en.c
	args := func() []Term {
		var ts []Term
		for _, a := range x.Args {
			ts = append(ts, en.eval(a))
		}
		return ts
	}
	seqArg := func(t Term) string {
		if !c.ss.IsSeq(t.Sort) {
			en.fail("%s: argument is not a sequence", x.Fun)
		}
		return string(t.Sort)
	}
	switch x.Fun {
	case "len":
		a := args()
		if len(a) != 1 {
			en.fail("len takes one argument")
		}
		if c.ss.IsSeq(a[0].Sort) {
			return Term{app(string(a[0].Sort)+".len", a[0].S), SInt, tInt}
		}
		if a[0].Ty != nil {
			if m, ok := types.Unalias(a[0].Ty).Underlying().(*types.Map); ok {
				card := c.mapCard(c.ss.SortOf(m.Key()))
				dom := app("select", c.heapGet(en.cur, mapDomKey(a[0].Ty)), a[0].S)
				return Term{ite(app("=", a[0].S, "0"), "0", app(card, dom)), SInt, tInt}
			}
		}
		en.fail("len of non-sequence")
	case "cat":
		a := args()
		S := seqArg(a[0])
		res := a[0].S
		for _, t := range a[1:] {
			if t.Sort != a[0].Sort {
				en.fail("cat: sort mismatch")
			}
			res = app(S+".cat", res, t.S)
		}
		return Term{res, a[0].Sort, a[0].Ty}
	case "unit", "runes1":
		a := args()
		S := c.ss.SeqOf(a[0].Sort)
		var ty types.Type
		if a[0].Ty != nil {
			ty = types.NewSlice(a[0].Ty)
		}
		return Term{app(string(S)+".unit", a[0].S), S, ty}
	case "upd":
		a := args()
		S := seqArg(a[0])
		return Term{app(S+".upd", a[0].S, a[1].S, a[2].S), a[0].Sort, a[0].Ty}
	case "take":
		a := args()
		S := seqArg(a[0])
		return Term{app(S+".take", a[0].S, a[1].S), a[0].Sort, a[0].Ty}
	case "drop":
		a := args()
		S := seqArg(a[0])
		return Term{app(S+".drop", a[0].S, a[1].S), a[0].Sort, a[0].Ty}
	case "emptyrunes":
		return Term{"Sq_Int.empty", c.ss.SeqOf(SInt), types.NewSlice(types.Typ[types.Rune])}
	case "emptystr":
		return Term{"Sq_Int.empty", c.ss.SeqOf(SInt), tString}
	case "runes": // []rune(string)
		a := args()
		return Term{app("utf8.dec", a[0].S), c.ss.SeqOf(SInt), types.NewSlice(types.Typ[types.Rune])}
	case "str": // string([]rune)
		a := args()
		return Term{app("utf8.enc", a[0].S), c.ss.SeqOf(SInt), tString}
	case "bytes": // string <-> []byte: identity on the model
		a := args()
		return Term{a[0].S, a[0].Sort, types.NewSlice(types.Typ[types.Byte])}
	case "san":
		a := args()
		return Term{app("utf8.san", a[0].S), a[0].Sort, a[0].Ty}
	case "clean":
		a := args()
		return Term{app("utf8.clean", a[0].S), SBool, tBool}
	case "validrune":
		a := args()
		return Term{app("utf8.valid1", a[0].S), SBool, tBool}
	case "enc1":
		a := args()
		return Term{app("utf8.enc1", a[0].S), c.ss.SeqOf(SInt), tString}
	case "ite":
		a := args()
		en.wantBool(a[0], x.Args[0])
		if a[1].Sort != a[2].Sort {
			en.fail("ite branches differ in sort")
		}
		return Term{ite(a[0].S, a[1].S, a[2].S), a[1].Sort, a[1].Ty}
	case "emod": // Euclidean remainder (what a & (2^n - 1) is, also for negative a)
		a := args()
		return Term{app("mod", a[0].S, a[1].S), SInt, tInt}
	case "ediv": // floor division (what a >> n is)
		a := args()
		return Term{app("div", a[0].S, a[1].S), SInt, tInt}
	case "min":
		a := args()
		return Term{ite(app("<=", a[0].S, a[1].S), a[0].S, a[1].S), SInt, tInt}
	case "max":
		a := args()
		return Term{ite(app(">=", a[0].S, a[1].S), a[0].S, a[1].S), SInt, tInt}
	case "mget": // dom-aware map read: the zero value when the key is absent (or the map is nil)
		a := args()
		if a[0].Ty == nil {
			en.fail("mget: untyped map")
		}
		m, ok := types.Unalias(a[0].Ty).Underlying().(*types.Map)
		if !ok {
			en.fail("mget: not a map")
		}
		in := and(not(app("=", a[0].S, "0")), app("select", app("select", c.heapGet(en.cur, mapDomKey(a[0].Ty)), a[0].S), a[1].S))
		val := app("select", app("select", c.heapGet(en.cur, mapKey(a[0].Ty)), a[0].S), a[1].S)
		return en.mk(ite(in, val, c.zeroValue(m.Elem())), m.Elem())
	case "mapempty": // the map has no entries
		a := args()
		m, ok := types.Unalias(a[0].Ty).Underlying().(*types.Map)
		if !ok {
			en.fail("mapempty: not a map")
		}
		dom := app("select", c.heapGet(en.cur, mapDomKey(a[0].Ty)), a[0].S)
		return Term{app("=", dom, fmt.Sprintf("((as const (Array %s Bool)) false)", c.ss.SortOf(m.Key()))), SBool, tBool}
	case "has": // key in map domain
		a := args()
		if a[0].Ty == nil {
			en.fail("has: untyped map")
		}
		if _, ok := types.Unalias(a[0].Ty).Underlying().(*types.Map); !ok {
			en.fail("has: not a map")
		}
		return Term{app("select", app("select", c.heapGet(en.cur, mapDomKey(a[0].Ty)), a[0].S), a[1].S), SBool, tBool}
	case "allocated":
		a := args()
		return Term{app("select", c.heapGet(en.cur, "alloc"), a[0].S), SBool, tBool}
	case "fresh": // allocated now, not allocated in the old state
		a := args()
		if en.old == nil {
			en.fail("fresh() needs an old state")
		}
		return Term{and(not(app("=", a[0].S, "0")), not(app("select", c.heapGet(en.old, "alloc"), a[0].S))), SBool, tBool}
	case "asbool": // the bool held by an interface value (meaningful when typeis(x, "bool"))
		a := args()
		c.ss.NeedBox(SBool)
		return Term{app("unbox!Bool", a[0].S), SBool, tBool}
	case "asstr": // the string held by an interface value (meaningful when typeis(x, "string"))
		a := args()
		srt := c.ss.SeqOf(SInt)
		c.ss.NeedBox(srt)
		return Term{app("unbox!"+string(srt), a[0].S), srt, types.Typ[types.String]}
	case "asint": // the int held by an interface value (meaningful when typeis(x, "int"))
		a := args()
		c.ss.NeedBox(SInt)
		return Term{app("unbox!Int", a[0].S), SInt, tInt}
	case "typeis":
		// typeis(x, "pkg.T")
		a := en.eval(x.Args[0])
		ts, ok := x.Args[1].(EStr)
		if !ok {
			en.fail("typeis(x, \"type\")")
		}
		ty, err := c.eng.resolveType(en.pkg, ts.V)
		if err != nil {
			en.fail("%v", err)
		}
		return Term{and(not(app("=", a.S, "0")), app("=", app("typeof!", a.S), intLit(int64(c.ss.TypeID(ty))))), SBool, tBool}
	}
	// user-defined spec / pred
	sd := c.eng.cs.LookupSpec(en.pkg, x.Fun)
	if sd == nil {
		en.fail("unknown function %s", x.Fun)
	}
	a := args()
	if len(a) != len(sd.Params) {
		en.fail("%s: %d arguments, want %d", x.Fun, len(a), len(sd.Params))
	}
	resTy, err := c.eng.resolveType(sd.PkgPath, sd.Result)
	if err != nil {
		en.fail("%v", err)
	}
	if sd.Ghost {
		key := ghostKey(sd)
		keyTypes[key] = resTy
		if len(sd.Params) == 0 {
			return en.mk(c.heapGet(en.cur, key), resTy)
		}
		return en.mk(app("select", c.heapGet(en.cur, key), a[0].S), resTy)
	}
	if sd.Body != nil && !sd.Rec {
		if en.depth > 40 {
			en.fail("spec expansion too deep at %s", x.Fun)
		}
		vars := map[string]Term{}
		for i, p := range sd.Params {
			pt, err := c.eng.resolveType(sd.PkgPath, p.Type)
			if err != nil {
				en.fail("%v", err)
			}
			t := a[i]
			if t.Sort != c.ss.SortOf(pt) {
				en.fail("%s: argument %d has sort %s, want %s", x.Fun, i, t.Sort, c.ss.SortOf(pt))
			}
			t.Ty = pt
			vars[p.Name] = t
		}
		sub := &Env{c: c, vars: vars, cur: en.cur, old: en.old, pkg: sd.PkgPath, depth: en.depth + 1}
		r := sub.eval(sd.Body)
		r.Ty = resTy
		return r
	}
	// uninterpreted
	name := c.declareSpec(sd)
	var as []string
	for i, t := range a {
		pt, _ := c.eng.resolveType(sd.PkgPath, sd.Params[i].Type)
		if pt != nil && t.Sort != c.ss.SortOf(pt) {
			en.fail("%s: argument %d has sort %s, want %s", x.Fun, i, t.Sort, c.ss.SortOf(pt))
		}
		as = append(as, t.S)
	}
	return en.mk(app(name, as...), resTy)
}

func ghostKey(sd *SpecDef) string {
	if len(sd.Params) == 0 {
		return "gg:" + sd.Name
	}
	return "gh:" + sd.Name
}

// declareSpec emits the declaration of an uninterpreted spec function once.
func (c *FnCtx) declareSpec(sd *SpecDef) string {
	name := "spec." + sanitize(sd.Name)
	if c.specDecl == nil {
		c.specDecl = map[string]bool{}
	}
	if c.specDecl[name] {
		return name
	}
	c.specDecl[name] = true
	var ps []string
	for _, p := range sd.Params {
		pt, err := c.eng.resolveType(sd.PkgPath, p.Type)
		if err != nil {
			c.errorf("%v", err)
			continue
		}
		ps = append(ps, string(c.ss.SortOf(pt)))
	}
	rt, err := c.eng.resolveType(sd.PkgPath, sd.Result)
	if err != nil {
		c.errorf("%v", err)
		return name
	}
	c.ss.extraDecl = append(c.ss.extraDecl, fmt.Sprintf("(declare-fun %s (%s) %s)", name, strings.Join(ps, " "), c.ss.SortOf(rt)))
	c.usedSpecs = append(c.usedSpecs, sd.Name)
	return name
}

// loadStruct builds a struct value from the heap fields of object ref.
func (c *FnCtx) loadStruct(s *State, ref string, sty types.Type) Term {
	srt := c.ss.SortOf(sty)
	info := c.ss.Struct(srt)
	st, _ := structOf(sty)
	var as []string
	for i := 0; i < st.NumFields(); i++ {
		as = append(as, app("select", c.heapGet(s, fieldKey(sty, st.Field(i).Name())), ref))
	}
	if len(as) == 0 {
		return Term{"mk!" + info.Name, srt, sty}
	}
	return Term{app("mk!"+info.Name, as...), srt, sty}
}

// assignKeys computes the heap keys named by a contract's assigns clauses (type-only evaluation).
func (e *Engine) assignKeys(fc *FuncContract, fn *ssa.Function) []string {
	var keys []string
	for _, g := range e.assignKeyGroups(fc, fn) {
		keys = append(keys, g...)
	}
	return keys
}

// assignKeyGroups: one list of keys per assigns clause.
func (e *Engine) assignKeyGroups(fc *FuncContract, fn *ssa.Function) [][]string {
	if fc.Pure || len(fc.Assigns) == 0 {
		return nil
	}
	if fc.assignKeysMemo != nil {
		return fc.assignKeysMemo
	}
	c := newFnCtx(e, fn, fc)
	vars, err := c.contractParamDummies(fc, fn)
	if err != nil {
		return [][]string{{"!error:" + err.Error()}}
	}
	st := &State{heap: map[string]string{}, armed: map[*ssa.Defer]string{}}
	en := &Env{c: c, vars: vars, cur: st, old: st, pkg: fc.PkgPath}
	var groups [][]string
	for _, a := range fc.Assigns {
		lv, err := en.EvalLValue(a.E)
		if err != nil {
			groups = append(groups, []string{"!error:" + err.Error()})
			continue
		}
		groups = append(groups, lv.keys)
	}
	fc.assignKeysMemo = groups
	return groups
}

// An assignable location named in an assigns clause.
type assignLoc struct {
	keys []string // heap keys touched
	ref  string   // object reference ("" = every object: whole-array havoc)
	all  bool
}

// EvalLValue interprets an assigns target: x.f, *p, m (map contents), allof(T.f).
func (en *Env) EvalLValue(e Expr) (loc assignLoc, err error) {
	defer func() {
		if r := recover(); r != nil {
			if ee, ok := r.(evalErr); ok {
				err = fmt.Errorf("%s", string(ee))
				return
			}
			panic(r)
		}
	}()
	switch x := e.(type) {
	case ESel:
		base := en.eval(x.X)
		p, ok := isPointer(base.Ty)
		if !ok {
			en.fail("assigns %s: base is not a pointer", exprString(e))
		}
		if x.Name == "all" {
			if _, ok := structOf(p.Elem()); ok {
				return assignLoc{keys: en.c.eng.structFieldKeys(p.Elem()), ref: base.S}, nil
			}
		}
		st, ok := structOf(p.Elem())
		if !ok {
			en.fail("assigns %s: not a struct", exprString(e))
		}
		for i := 0; i < st.NumFields(); i++ {
			if st.Field(i).Name() == x.Name {
				return assignLoc{keys: []string{fieldKey(p.Elem(), x.Name)}, ref: base.S}, nil
			}
		}
		en.fail("assigns %s: no such field", exprString(e))
	case EUn:
		if x.Op == "*" {
			base := en.eval(x.X)
			p, ok := isPointer(base.Ty)
			if !ok {
				en.fail("assigns %s: not a pointer", exprString(e))
			}
			if _, ok := structOf(p.Elem()); ok {
				return assignLoc{keys: en.c.eng.structFieldKeys(p.Elem()), ref: base.S}, nil
			}
			return assignLoc{keys: []string{cellKey(p.Elem())}, ref: base.S}, nil
		}
	case ECall:
		switch x.Fun {
		case "mapof": // contents of a map value
			base := en.eval(x.Args[0])
			if _, ok := types.Unalias(base.Ty).Underlying().(*types.Map); !ok {
				en.fail("mapof: not a map")
			}
			return assignLoc{keys: []string{mapKey(base.Ty), mapDomKey(base.Ty)}, ref: base.S}, nil
		case "anyof": // anyof("T", "f"): field f of every object of type T
			ts, ok1 := x.Args[0].(EStr)
			fs, ok2 := x.Args[1].(EStr)
			if !ok1 || !ok2 {
				en.fail("anyof(\"Type\", \"field\")")
			}
			ty, err := en.c.eng.resolveType(en.pkg, ts.V)
			if err != nil {
				en.fail("%v", err)
			}
			if fs.V == "*" {
				return assignLoc{keys: en.c.eng.structFieldKeys(ty), all: true}, nil
			}
			return assignLoc{keys: []string{fieldKey(ty, fs.V)}, all: true}, nil
		default:
			if sd := en.c.eng.cs.LookupSpec(en.pkg, x.Fun); sd != nil && sd.Ghost {
				resTy, err := en.c.eng.resolveType(sd.PkgPath, sd.Result)
				if err != nil {
					en.fail("%v", err)
				}
				key := ghostKey(sd)
				keyTypes[key] = resTy
				if len(sd.Params) == 0 {
					return assignLoc{keys: []string{key}, all: true}, nil
				}
				base := en.eval(x.Args[0])
				return assignLoc{keys: []string{key}, ref: base.S}, nil
			}
		case "anyghost": // ghost field of every object
			id, ok := x.Args[0].(EIdent)
			if !ok {
				en.fail("anyghost(name)")
			}
			sd := en.c.eng.cs.LookupSpec(en.pkg, id.Name)
			if sd == nil || !sd.Ghost {
				en.fail("anyghost: %s is not a ghost field", id.Name)
			}
			resTy, err := en.c.eng.resolveType(sd.PkgPath, sd.Result)
			if err != nil {
				en.fail("%v", err)
			}
			key := ghostKey(sd)
			keyTypes[key] = resTy
			return assignLoc{keys: []string{key}, all: true}, nil
		case "anymapof": // contents of every map of the given type
			ts, ok := x.Args[0].(EStr)
			if !ok {
				en.fail("anymapof(\"map[K]V\")")
			}
			ty, err := en.c.eng.resolveType(en.pkg, ts.V)
			if err != nil {
				en.fail("%v", err)
			}
			return assignLoc{keys: []string{mapKey(ty), mapDomKey(ty)}, all: true}, nil
		case "global":
			ns, ok := x.Args[0].(EStr)
			if !ok {
				en.fail("global(\"pkgpath.Name\")")
			}
			return assignLoc{keys: []string{"g:" + ns.V}, all: true}, nil
		}
	}
	en.fail("unsupported assigns target %s", exprString(e))
	return
}
