package main

// Contract validation against the real code (thorough tier): "who verifies the verifier".
//
// For every function under contract whose parameters replay can build (see replay.go), a generated in-package
// test draws small random inputs (integers from a small set, sequences over the character literals of the
// function, object graphs of the package's own structs with sharing), keeps those that satisfy every requires
// clause (compiled from the contract language to Go), calls the REAL function and evaluates every ensures
// clause that is executable.  The clauses were proved by the VC generator; a clause that is false on the real
// code for an input satisfying the preconditions, or a panic in a function proved panic-free, is a
// disagreement between the model and Go: an error of the machinery (or a broken assumption), reported as such
// (never as a property violation).  One test file and one `go test` per package.

import (
	"fmt"
	"go/types"
	"os"
	"sort"
	"strings"

	"golang.org/x/tools/go/ssa"
)

type validateStats struct {
	Functions     int      `json:"functions_validated"`
	Skipped       int      `json:"functions_not_buildable"`
	Accepted      int      `json:"inputs_satisfying_requires"`
	Clauses       int      `json:"ensures_clauses_evaluated"`
	ClausesSkip   int      `json:"ensures_clauses_not_executable"`
	Disagreements []string `json:"disagreements"`
	Notes         []string `json:"notes,omitempty"`
}

const validateSamples = 3000

// buildableType: can the generator make a value of this type (depth-limited)?
func (rp *replayer) buildable(t types.Type, depth int) bool {
	if replayableBasic(t) {
		return true
	}
	if depth > 3 {
		return false
	}
	if pt, ok := types.Unalias(t).Underlying().(*types.Pointer); ok {
		if _, ok := structOf(pt.Elem()); ok {
			n, isNamed := types.Unalias(pt.Elem()).(*types.Named)
			return isNamed && n.Obj().Pkg() != nil && n.Obj().Pkg().Path() == rp.fn.Pkg.Pkg.Path()
		}
		return replayableBasic(pt.Elem())
	}
	return false
}

// genValueCode emits Go code producing a random value of type t (uses rpR *rpRand and the pools).
func (rp *replayer) genValueCode(t types.Type, depth int, gens map[string]string) string {
	gt := rp.goType(t)
	switch u := types.Unalias(t).Underlying().(type) {
	case *types.Basic:
		switch {
		case u.Info()&types.IsBoolean != 0:
			return fmt.Sprintf("%s(rpR.n(2) == 0)", gt)
		case u.Info()&types.IsString != 0:
			return fmt.Sprintf("%s(rpBytes(rpR.seq()))", gt)
		case u.Info()&types.IsUnsigned != 0:
			return fmt.Sprintf("%s(rpR.small(true))", gt)
		default:
			return fmt.Sprintf("%s(rpR.small(false))", gt)
		}
	case *types.Slice:
		el := types.Unalias(u.Elem()).Underlying().(*types.Basic)
		_ = el
		return fmt.Sprintf("rpMk[%s, %s](rpR.seq())", rp.goType(u.Elem()), gt)
	case *types.Pointer:
		name := "rpGen_" + sanitize(rp.goType(u.Elem()))
		if _, done := gens[name]; !done {
			gens[name] = "" // reserve (recursive types)
			var b strings.Builder
			et := rp.goType(u.Elem())
			fmt.Fprintf(&b, "func %s(rpR *rpRand, depth int) *%s {\n", name, et)
			fmt.Fprintf(&b, "\tif pool := rpR.pool[%q]; len(pool) > 0 && rpR.n(2) == 0 {\n\t\treturn pool[rpR.n(len(pool))].(*%s)\n\t}\n", et, et)
			fmt.Fprintf(&b, "\tif depth > 3 || rpR.n(12) == 0 {\n\t\treturn nil\n\t}\n\to := new(%s)\n\trpR.pool[%q] = append(rpR.pool[%q], o)\n", et, et, et)
			if st, ok := structOf(u.Elem()); ok {
				for i := 0; i < st.NumFields(); i++ {
					f := st.Field(i)
					if f.Name() == "_" || !rp.buildable(f.Type(), depth+1) {
						continue
					}
					fmt.Fprintf(&b, "\to.%s = %s\n", f.Name(), rp.genValueCode(f.Type(), depth+1, gens))
				}
			} else {
				fmt.Fprintf(&b, "\t*o = %s\n", rp.genValueCode(u.Elem(), depth+1, gens))
			}
			b.WriteString("\treturn o\n}\n\n")
			gens[name] = b.String()
		}
		return fmt.Sprintf("%s(rpR, %d)", name, depth)
	}
	return "nil"
}

const validateHelpers = `
type rpRand struct {
	s    uint64
	pool map[string][]any
	al   []int64
}

func (rpR *rpRand) n(k int) int {
	rpR.s ^= rpR.s << 13
	rpR.s ^= rpR.s >> 7
	rpR.s ^= rpR.s << 17
	return int(rpR.s % uint64(k))
}

func (rpR *rpRand) small(unsigned bool) int64 {
	vals := []int64{0, 1, 2, 3, 4, 5, 7, -1, -2, 10}
	if unsigned {
		vals = []int64{0, 1, 2, 3, 65, 97, 10, 32, 127, 200}
	}
	return vals[rpR.n(len(vals))]
}

func (rpR *rpRand) seq() []int64 {
	n := rpR.n(5)
	out := make([]int64, n)
	for i := range out {
		out[i] = rpR.al[rpR.n(len(rpR.al))]
	}
	return out
}
`

// validateProp generates and runs the validation tests for the functions of results; returns the statistics.
func validateProp(eng *Engine, results []*FuncResult) *validateStats {
	vs := &validateStats{}
	type fnJob struct {
		rp   *replayer
		name string
		code string
	}
	byPkg := map[string][]*fnJob{}
	gensByPkg := map[string]map[string]string{}
	for _, r := range results {
		fn := eng.funcs[r.Key]
		fc := eng.cs.Funcs[r.Key]
		if fn == nil || fc == nil || fn.Pkg == nil || fc.Trusted || fc.Assumed || fc.FnType {
			continue
		}
		// only functions whose every obligation was discharged in this run
		allOK := len(r.Obls) > 0 && len(r.Errs) == 0
		for _, o := range r.Obls {
			if o.Result != "proved" {
				allOK = false
			}
		}
		if !allOK || strings.Contains(fn.Name(), "$") {
			continue
		}
		rp := &replayer{eng: eng, fr: r, fn: fn, fc: fc}
		ok := true
		for _, p := range fn.Params {
			if !rp.buildable(p.Type(), 0) {
				ok = false
			}
		}
		if !ok || len(fn.Params) == 0 {
			vs.Skipped++
			continue
		}
		pkg := fn.Pkg.Pkg.Path()
		if gensByPkg[pkg] == nil {
			gensByPkg[pkg] = map[string]string{}
		}
		code, nCl, nSkip, why := rp.validateBody(gensByPkg[pkg], len(byPkg[pkg]))
		if code == "" {
			vs.Skipped++
			vs.Notes = append(vs.Notes, shortFuncName(r.Key)+": "+why)
			continue
		}
		vs.Functions++
		vs.Clauses += nCl
		vs.ClausesSkip += nSkip
		byPkg[pkg] = append(byPkg[pkg], &fnJob{rp: rp, name: shortFuncName(r.Key), code: code})
	}
	var pkgs []string
	for p := range byPkg {
		pkgs = append(pkgs, p)
	}
	sort.Strings(pkgs)
	for _, pkg := range pkgs {
		jobs := byPkg[pkg]
		rp0 := jobs[0].rp
		var b strings.Builder
		fmt.Fprintf(&b, "package %s\n\n// Generated by rlverify (contract validation against the real code).\n\n", rp0.fn.Pkg.Pkg.Name())
		b.WriteString("import (\n\t\"fmt\"\n\t\"reflect\"\n\t\"runtime\"\n\t\"strings\"\n\t\"testing\"\n\t\"time\"\n\t\"unicode\"\n\t\"unicode/utf8\"\n)\n\nvar _ = unicode.IsSpace\nvar _ = utf8.ValidRune\nvar _ = runtime.Callers\nvar _ = time.Now\n\n")
		// the replay helpers minus the driver (which refers to rpBody / rpCand)
		helpers := replayHelpers
		if i := strings.Index(helpers, "// rpDrive runs the candidate"); i >= 0 {
			j := strings.Index(helpers[i:], "\nfunc rpInt(")
			if j > 0 {
				helpers = helpers[:i] + helpers[i+j:]
			}
		}
		b.WriteString(helpers)
		b.WriteString(validateHelpers)
		b.WriteString(validateDescribe)
		var gnames []string
		for n := range gensByPkg[pkg] {
			gnames = append(gnames, n)
		}
		sort.Strings(gnames)
		for _, n := range gnames {
			b.WriteString(gensByPkg[pkg][n])
		}
		b.WriteString("func TestVerifReplay(t *testing.T) {\n")
		for i := range jobs {
			fmt.Fprintf(&b, "\trpValidate%d()\n", i)
		}
		b.WriteString("}\n\n")
		for _, j := range jobs {
			b.WriteString(j.code)
		}
		dir, err := os.MkdirTemp("", "rlvalidate")
		if err != nil {
			continue
		}
		rp0.base = dir
		out, ok := rp0.runTest(b.String())
		os.RemoveAll(dir)
		if !ok && !strings.Contains(out, "VALIDATE-") {
			vs.Notes = append(vs.Notes, fmt.Sprintf("package %s: the validation test did not build or run: %s", pkg, firstN(out, 600)))
			vs.Functions -= len(jobs)
			vs.Skipped += len(jobs)
			continue
		}
		for _, l := range strings.Split(out, "\n") {
			l = strings.TrimSpace(l)
			switch {
			case strings.HasPrefix(l, "VALIDATE-DISAGREE"):
				vs.Disagreements = append(vs.Disagreements, l)
			case strings.HasPrefix(l, "VALIDATE-OK"):
				var n int
				if i := strings.Index(l, "accepted="); i >= 0 {
					fmt.Sscanf(l[i:], "accepted=%d", &n)
				}
				vs.Accepted += n
			}
		}
	}
	return vs
}

// validateBody emits "func rpValidate<k>()" for one function.
func (rp *replayer) validateBody(gens map[string]string, k int) (code string, nClauses, nSkipped int, why string) {
	fn := rp.fn
	gc := &goCompiler{rp: rp, params: map[string]bool{}}
	var argNames, decls []string
	for _, p := range fn.Params {
		gc.params[p.Name()] = true
		argNames = append(argNames, p.Name())
		decls = append(decls, fmt.Sprintf("\t\tvar %s %s = %s\n\t\t_ = %s", p.Name(), rp.goType(p.Type()), rp.genValueCode(p.Type(), 0, gens), p.Name()))
	}
	var reqs []string
	for _, r := range rp.fc.Requires {
		c, err := gc.compile(r.E, map[string]string{})
		if err != nil {
			return "", 0, 0, "a requires clause is not executable (" + err.Error() + ")"
		}
		reqs = append(reqs, fmt.Sprintf("\t\tif !rpTruth(%s) {\n\t\t\treturn \"\"\n\t\t}", c))
	}
	nres := fn.Signature.Results().Len()
	var resNames []string
	for i := 0; i < nres; i++ {
		resNames = append(resNames, fmt.Sprintf("rpRes%d", i))
	}
	gc.results = resNames
	var posts []string
	for _, e := range rp.fc.Ensures {
		// clauses that belong to another property only, and clauses with a recorded known finding (proved
		// only outside its witness), are not facts of this run
		if len(e.Props) > 0 && rp.eng.curProp != "" && !hasProp(e.Props, rp.eng.curProp) {
			continue
		}
		kf := false
		for _, o := range rp.fr.Obls {
			if o.KF != nil && o.Src == "ensures "+e.Src {
				kf = true
			}
		}
		if kf {
			continue
		}
		before := len(gc.olds)
		c, err := gc.compile(e.E, map[string]string{})
		if err != nil {
			gc.olds = gc.olds[:before]
			nSkipped++
			continue
		}
		nClauses++
		if os.Getenv("VERIF_VALIDATE_SELFTEST") != "" && os.Getenv("VERIF_VALIDATE_SELFTEST") == fn.Name() && nClauses == 1 {
			// self-test of the validator: evaluate the negation of a proved clause, which must be reported
			c = "any(!rpTruth(" + c + "))"
		}
		posts = append(posts, fmt.Sprintf("\t\tif !rpTruth(%s) {\n\t\t\treturn \"clause false after the call: \" + %q\n\t\t}", c, e.Src))
	}
	if nClauses == 0 && !(rp.fc.NoPanic && !rp.fc.MayPanic) {
		return "", 0, nSkipped, "no executable ensures clause"
	}
	call := ""
	if fn.Signature.Recv() != nil {
		call = fmt.Sprintf("%s.%s(%s)", argNames[0], fn.Name(), rp.callArgs(argNames[1:]))
	} else {
		call = fmt.Sprintf("%s(%s)", fn.Name(), rp.callArgs(argNames))
	}
	if nres > 0 {
		call = strings.Join(resNames, ", ") + " := " + call
	}
	var al []string
	for _, a := range rp.alphabet() {
		al = append(al, fmt.Sprint(a))
	}
	panicIsDisagreement := rp.fc.NoPanic && !rp.fc.MayPanic
	var b strings.Builder
	fmt.Fprintf(&b, "func rpValidate%d() {\n\trpR := &rpRand{s: 88172645463325252 + %d, al: []int64{%s}}\n\taccepted, shown := 0, 0\n", k, k, strings.Join(al, ", "))
	fmt.Fprintf(&b, "\tfor iter := 0; iter < %d; iter++ {\n\t\trpR.pool = map[string][]any{}\n\t\tdesc := \"\"\n\t\tout := func() (res string) {\n", validateSamples)
	fmt.Fprintf(&b, "\t\tentered := false\n\t\tdefer func() {\n\t\t\tif p := recover(); p != nil {\n\t\t\t\tif entered && %v {\n\t\t\t\t\tres = fmt.Sprint(\"panic in a function proved panic-free: \", p)\n\t\t\t\t} else {\n\t\t\t\t\tres = \"\"\n\t\t\t\t}\n\t\t\t}\n\t\t}()\n", panicIsDisagreement)
	b.WriteString(strings.Join(decls, "\n") + "\n")
	b.WriteString(strings.Join(reqs, "\n") + "\n")
	var show []string
	for _, a := range argNames {
		show = append(show, fmt.Sprintf("%s=%%s", a))
	}
	var showArgs []string
	for _, a := range argNames {
		showArgs = append(showArgs, fmt.Sprintf("rpDescribe(%s)", a))
	}
	fmt.Fprintf(&b, "\t\tdesc = fmt.Sprintf(%q, %s)\n", strings.Join(show, " "), strings.Join(showArgs, ", "))
	b.WriteString("\t\taccepted++\n")
	b.WriteString(strings.Join(gc.olds, "\n") + "\n")
	b.WriteString("\t\tentered = true\n")
	fmt.Fprintf(&b, "\t\t%s\n\t\tentered = false\n", call)
	for _, r := range resNames {
		fmt.Fprintf(&b, "\t\t_ = %s\n", r)
	}
	b.WriteString(strings.Join(posts, "\n") + "\n")
	b.WriteString("\t\treturn \"\"\n\t\t}()\n")
	fmt.Fprintf(&b, "\t\tif out != \"\" && shown < 3 {\n\t\t\tshown++\n\t\t\tfmt.Printf(\"VALIDATE-DISAGREE %s: %%s; input: %%s\\n\", out, desc)\n\t\t}\n\t}\n", shortFuncName(rp.fr.Key))
	fmt.Fprintf(&b, "\tfmt.Printf(\"VALIDATE-OK %s accepted=%%d\\n\", accepted)\n}\n\n", shortFuncName(rp.fr.Key))
	return b.String(), nClauses, nSkipped, ""
}

// validateDescribeHelper renders an input for the report.
const validateDescribe = `
func rpDescribe(x any) string {
	v := reflect.ValueOf(x)
	if !v.IsValid() {
		return "nil"
	}
	var walk func(v reflect.Value, depth int) string
	walk = func(v reflect.Value, depth int) string {
		if depth > 3 {
			return "…"
		}
		switch v.Kind() {
		case reflect.Ptr:
			if v.IsNil() {
				return "nil"
			}
			return "&" + walk(v.Elem(), depth+1)
		case reflect.Struct:
			var parts []string
			for i := 0; i < v.NumField(); i++ {
				f := v.Field(i)
				switch f.Kind() {
				case reflect.Func, reflect.Map, reflect.Chan, reflect.Interface:
					continue
				}
				if f.IsZero() {
					continue
				}
				parts = append(parts, v.Type().Field(i).Name+":"+walk(f, depth+1))
			}
			return "{" + strings.Join(parts, " ") + "}"
		case reflect.Slice:
			if s, ok := rpSeqValue(v); ok {
				rs := make([]rune, len(s))
				for i, x := range s {
					rs[i] = rune(x)
				}
				return fmt.Sprintf("%q", string(rs))
			}
			return fmt.Sprintf("[%d elems]", v.Len())
		case reflect.String:
			return fmt.Sprintf("%q", v.String())
		case reflect.Int, reflect.Int8, reflect.Int16, reflect.Int32, reflect.Int64:
			return fmt.Sprint(v.Int())
		case reflect.Uint, reflect.Uint8, reflect.Uint16, reflect.Uint32, reflect.Uint64:
			return fmt.Sprint(v.Uint())
		case reflect.Bool:
			return fmt.Sprint(v.Bool())
		}
		return "?"
	}
	return walk(v, 0)
}

func rpSeqValue(v reflect.Value) ([]int64, bool) {
	out := make([]int64, v.Len())
	for i := 0; i < v.Len(); i++ {
		e := v.Index(i)
		switch e.Kind() {
		case reflect.Int, reflect.Int8, reflect.Int16, reflect.Int32, reflect.Int64:
			out[i] = e.Int()
		case reflect.Uint, reflect.Uint8, reflect.Uint16, reflect.Uint32, reflect.Uint64:
			out[i] = int64(e.Uint())
		default:
			return nil, false
		}
	}
	return out, true
}
`

var _ = ssa.NewProgram
