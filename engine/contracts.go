package main

// Contract files: comment-only Go files (build tag verif) in /repo, one per package,
// plus /verif/specs/*.spec for assumed contracts of library functions.  Every contract
// line starts with "//@".  See DESIGN.md §2.2.

import (
	"fmt"
	"os"
	"path/filepath"
	"sort"
	"strconv"
	"strings"
)

type Clause struct {
	E     Expr
	Src   string
	Props []string // restrict to these properties (empty = all of the function's)
	Label string
	File  string
	Line  int
}

type LoopSpec struct {
	Invariants []Clause
	Decreases  []Clause
	Uses       []Clause // "loop N use axiom(args)": one instance of a (manual) axiom or lemma at the loop head
}

type Param struct {
	Name string
	Type string // Go type syntax
}

type FuncContract struct {
	Key            string // normalised function name (ssa.Function.String())
	Raw            string
	PkgPath        string // package in whose scope names are resolved
	Props          []string
	Requires       []Clause
	Ensures        []Clause
	EnsuresAlways  []Clause // also on the panic edges (after the armed defers have run)
	NoInline       bool     // uncontracted module callees are havocked (inferred write set), never inlined
	Assigns        []Clause
	HasAssigns     bool
	Pure           bool
	Trusted        bool // body not verified, contract assumed (repo function)
	Assumed        bool // library function, contract assumed
	Terminates     bool // claim termination: loops need decreases
	NoPanic        bool // default true: generate nopanic obligations
	MayPanic       bool // explicit panics are not obligations
	Loops          map[int]*LoopSpec
	Measure        []Clause // recursion measure
	Model          map[string]string
	File           string
	Line           int
	Note           string
	Binds          []Param // extra names: e.g. "bind x = expr" evaluated at entry (ghost lets)
	LetSrc         []Clause
	FnType         bool // contract for a function type / interface method
	assignKeysMemo [][]string
	RecAssumed     string
	Defines        string
	AtCalls        []AtCall
	Retains        []string
	AllowAlias     string
	Writes         []string
	Bounded        []BoundedSpec
	ReturnsAlias   string // the function hands out a slice it also keeps (no copy): reason / what it aliases
}

// BoundedSpec: a bounded stand-in for a trusted function: a test of its contract on the real code
// (file under /verif/bounded, injected with go test -overlay), never counted as proved.
type BoundedSpec struct {
	File  string // relative to /verif/bounded
	Test  string
	Bound string
}

type AtCall struct {
	Match  string
	C      Clause
	Always bool // at_call <callee>! ...: the matched call must have been executed on every path that returns
}

type SpecDef struct {
	Name    string
	PkgPath string
	Params  []Param
	Result  string // Go type syntax ("bool" for preds)
	Body    Expr   // nil => uninterpreted
	Src     string
	File    string
	Line    int
	Rec     bool
	Ghost   bool // ghost field: heap-resident, indexed by an object reference (or global if no params)
}

type AxiomDef struct {
	Name    string
	PkgPath string
	Params  []Param
	Body    Expr
	Src     string
	File    string
	Line    int
	Lemma   bool // must be proved (obligation) before being assumed by others
	Props   []string
	Hints   []string
	Trigger [][]Expr
	Manual  bool     // never asserted with a quantifier: only the instances named by "use" clauses
	Uses    []Clause // lemma proof: ground instances of earlier axioms / lemmas (or of the lemma itself, see Induct)
	Induct  *Clause  // well-founded induction: instances of the lemma itself may be used where this measure is smaller
}

type Contracts struct {
	Finals []*FinalDef
	Funcs  map[string]*FuncContract
	Specs  map[string]*SpecDef // key: pkgpath + "::" + name
	Axioms []*AxiomDef
	Files  []string
	// scan of assumption keywords for the evidence
	AssumedList []string
	Notes       []string
}

// FinalDef declares a struct field that is never written once its object has been built (checked
// syntactically over the SSA of the whole module); such a field survives every havoc.
type FinalDef struct {
	Field string
	Key   string
	Props []string
	File  string
	Line  int
}

func NewContracts() *Contracts {
	return &Contracts{Funcs: map[string]*FuncContract{}, Specs: map[string]*SpecDef{}}
}

var clauseKeywords = map[string]bool{
	"props": true, "requires": true, "ensures": true, "assigns": true, "pure": true, "trusted": true,
	"assumed": true, "terminates": true, "loop": true, "measure": true, "maypanic": true, "note": true,
	"ensures_always": true, "noinline": true, "let": true, "model": true, "recursion_assumed": true, "assume_nopanic": true, "defines": true, "at_call": true, "bounded": true, "retains": true, "returns_alias": true, "allow_alias": true, "writes": true,
}

// normaliseFuncKey turns "(*Cursor).Pos" into "(*pkgpath.Cursor).Pos" and "Name" into "pkgpath.Name".
func normaliseFuncKey(raw, pkgPath string) string {
	raw = strings.TrimSpace(raw)
	if strings.HasPrefix(raw, "field:") {
		return raw
	}
	if strings.HasPrefix(raw, "param:") {
		// param:(*Selection).ReplaceWith.replacer -> param:(*pkg/path.Selection).ReplaceWith.replacer
		rest := raw[6:]
		i := strings.LastIndex(rest, ".")
		if i < 0 {
			return raw
		}
		return "param:" + normaliseFuncKey(rest[:i], pkgPath) + rest[i:]
	}
	if strings.HasPrefix(raw, "(") {
		end := strings.Index(raw, ")")
		recv := raw[1:end]
		rest := raw[end+1:]
		star := ""
		if strings.HasPrefix(recv, "*") {
			star = "*"
			recv = recv[1:]
		}
		if !strings.Contains(recv, ".") && !strings.Contains(recv, "/") && pkgPath != "" {
			recv = pkgPath + "." + recv
		}
		return "(" + star + recv + ")" + rest
	}
	if strings.Contains(raw, "/") || (strings.Contains(raw, ".") && pkgPath == "") {
		return raw
	}
	if i := strings.Index(raw, "."); i >= 0 && !strings.Contains(raw, "$") {
		// qualified by a bare package name, e.g. utf8.RuneCount: leave to caller
		return raw
	}
	return pkgPath + "." + raw
}

func parseParams(s string) ([]Param, error) {
	s = strings.TrimSpace(s)
	if s == "" {
		return nil, nil
	}
	var parts []string
	depth := 0
	last := 0
	for i, c := range s {
		switch c {
		case '(', '[':
			depth++
		case ')', ']':
			depth--
		case ',':
			if depth == 0 {
				parts = append(parts, s[last:i])
				last = i + 1
			}
		}
	}
	parts = append(parts, s[last:])
	var ps []Param
	for _, p := range parts {
		p = strings.TrimSpace(p)
		i := strings.IndexAny(p, " \t")
		if i < 0 {
			return nil, fmt.Errorf("parameter %q needs a type", p)
		}
		ps = append(ps, Param{Name: p[:i], Type: strings.TrimSpace(p[i+1:])})
	}
	return ps, nil
}

// parseSig parses "name(params) result" with optional " = body" / ": body" already split off.
func parseSig(s string) (name string, params []Param, result string, err error) {
	open := strings.Index(s, "(")
	if open < 0 {
		return "", nil, "", fmt.Errorf("missing '(' in %q", s)
	}
	name = strings.TrimSpace(s[:open])
	depth := 0
	cl := -1
	for i := open; i < len(s); i++ {
		if s[i] == '(' {
			depth++
		}
		if s[i] == ')' {
			depth--
			if depth == 0 {
				cl = i
				break
			}
		}
	}
	if cl < 0 {
		return "", nil, "", fmt.Errorf("missing ')' in %q", s)
	}
	params, err = parseParams(s[open+1 : cl])
	result = strings.TrimSpace(s[cl+1:])
	return
}

func (cs *Contracts) LoadFile(path, pkgPath string) error {
	data, err := os.ReadFile(path)
	if err != nil {
		return err
	}
	cs.Files = append(cs.Files, path)
	type rawLine struct {
		text string
		n    int
	}
	var lines []rawLine
	for i, l := range strings.Split(string(data), "\n") {
		t := strings.TrimSpace(l)
		if !strings.HasPrefix(t, "//@") {
			continue
		}
		lines = append(lines, rawLine{strings.TrimSpace(t[3:]), i + 1})
	}
	// join continuation lines: a line continues the previous one if its first word is not a keyword
	topKeywords := map[string]bool{"func": true, "pred": true, "spec": true, "ghost": true, "axiom": true, "lemma": true, "package": true, "fntype": true, "hint": true, "trigger": true, "manual": true, "final": true, "use": true, "induct": true}
	var joined []rawLine
	for _, l := range lines {
		if l.text == "" {
			continue
		}
		w := l.text
		if i := strings.IndexAny(w, " \t("); i >= 0 {
			w = w[:i]
		}
		if topKeywords[w] || clauseKeywords[w] || len(joined) == 0 {
			joined = append(joined, l)
		} else {
			joined[len(joined)-1].text += " " + l.text
		}
	}
	var cur *FuncContract
	var curAx *AxiomDef
	for _, l := range joined {
		w := l.text
		rest := ""
		if i := strings.IndexAny(w, " \t"); i >= 0 {
			rest = strings.TrimSpace(w[i+1:])
			w = w[:i]
		}
		fail := func(e error) error { return fmt.Errorf("%s:%d: %v", path, l.n, e) }
		mkClause := func(src string) (Clause, error) {
			c := Clause{Src: src, File: path, Line: l.n}
			// optional @Cxx tags and [label]
			for {
				src = strings.TrimSpace(src)
				if strings.HasPrefix(src, "@") {
					j := strings.IndexAny(src, " \t")
					if j < 0 {
						return c, fmt.Errorf("clause has only a tag")
					}
					c.Props = append(c.Props, src[1:j])
					src = src[j:]
					continue
				}
				if strings.HasPrefix(src, "[") {
					j := strings.Index(src, "]")
					if j > 0 && !strings.ContainsAny(src[1:j], " :") {
						c.Label = src[1:j]
						src = src[j+1:]
						continue
					}
				}
				break
			}
			e, err := ParseExpr(src)
			if err != nil {
				return c, err
			}
			c.E = e
			c.Src = strings.TrimSpace(src)
			return c, nil
		}
		switch w {
		case "package":
			pkgPath = rest
			cur, curAx = nil, nil
		case "func", "fntype":
			key := normaliseFuncKey(rest, pkgPath)
			if _, dup := cs.Funcs[key]; dup {
				return fail(fmt.Errorf("duplicate contract for %s", key))
			}
			cur = &FuncContract{Key: key, Raw: rest, PkgPath: pkgPath, Loops: map[int]*LoopSpec{}, File: path, Line: l.n, NoPanic: true, FnType: w == "fntype"}
			cs.Funcs[key] = cur
			curAx = nil
		case "pred", "spec", "ghost":
			cur, curAx = nil, nil
			sigPart, body := rest, ""
			if i := strings.Index(rest, " = "); i >= 0 {
				sigPart, body = rest[:i], rest[i+3:]
			}
			name, params, result, err := parseSig(sigPart)
			if err != nil {
				return fail(err)
			}
			if w == "pred" {
				result = "bool"
			}
			if strings.HasPrefix(result, "rec ") {
				result = strings.TrimSpace(result[4:])
			}
			sd := &SpecDef{Name: name, PkgPath: pkgPath, Params: params, Result: result, Src: body, File: path, Line: l.n, Ghost: w == "ghost"}
			if body != "" {
				e, err := ParseExpr(body)
				if err != nil {
					return fail(err)
				}
				sd.Body = e
			}
			cs.Specs[pkgPath+"::"+name] = sd
		case "final":
			// "final pkg.Type.field [props Cxx ...]": the field is only written while its object is being built
			cur, curAx = nil, nil
			fs := strings.Fields(rest)
			if len(fs) == 0 {
				return fail(fmt.Errorf("final pkg.Type.field [props ...]"))
			}
			fd := &FinalDef{Field: fs[0], Key: "f:" + fs[0], File: path, Line: l.n}
			if len(fs) > 2 && fs[1] == "props" {
				fd.Props = fs[2:]
			}
			cs.Finals = append(cs.Finals, fd)
		case "axiom", "lemma":
			cur = nil
			i := strings.Index(rest, "):")
			if i < 0 {
				return fail(fmt.Errorf("%s name(params): body", w))
			}
			name, params, _, err := parseSig(rest[:i+1])
			if err != nil {
				return fail(err)
			}
			body := strings.TrimSpace(rest[i+2:])
			ax := &AxiomDef{Name: name, PkgPath: pkgPath, Params: params, Src: body, File: path, Line: l.n, Lemma: w == "lemma"}
			c, err := mkClause(body)
			if err != nil {
				return fail(err)
			}
			ax.Body = c.E
			ax.Props = c.Props
			cs.Axioms = append(cs.Axioms, ax)
			curAx = ax
			if w == "axiom" {
				cs.AssumedList = append(cs.AssumedList, fmt.Sprintf("axiom %s: %s", name, body))
			}
		case "hint":
			if curAx == nil {
				return fail(fmt.Errorf("hint outside lemma"))
			}
			curAx.Hints = append(curAx.Hints, rest)
		case "manual":
			if curAx == nil {
				return fail(fmt.Errorf("manual outside axiom/lemma"))
			}
			curAx.Manual = true
		case "use":
			if curAx == nil || !curAx.Lemma {
				return fail(fmt.Errorf("use outside lemma"))
			}
			c, err := mkClause(rest)
			if err != nil {
				return fail(err)
			}
			curAx.Uses = append(curAx.Uses, c)
		case "induct":
			if curAx == nil || !curAx.Lemma {
				return fail(fmt.Errorf("induct outside lemma"))
			}
			c, err := mkClause(rest)
			if err != nil {
				return fail(err)
			}
			curAx.Induct = &c
		case "trigger":
			if curAx == nil {
				return fail(fmt.Errorf("trigger outside axiom/lemma"))
			}
			// "trigger a ;; b" is one multi-pattern; separate trigger lines are alternatives
			var multi []Expr
			for _, part := range strings.Split(rest, ";;") {
				e, err := ParseExpr(strings.TrimSpace(part))
				if err != nil {
					return fail(err)
				}
				multi = append(multi, e)
			}
			curAx.Trigger = append(curAx.Trigger, multi)
		default:
			if !clauseKeywords[w] {
				return fail(fmt.Errorf("unknown keyword %q", w))
			}
			if w == "props" && curAx != nil {
				curAx.Props = append(curAx.Props, strings.Fields(rest)...)
				continue
			}
			if cur == nil {
				return fail(fmt.Errorf("clause %q outside func block", w))
			}
			switch w {
			case "props":
				cur.Props = append(cur.Props, strings.Fields(rest)...)
			case "requires":
				c, err := mkClause(rest)
				if err != nil {
					return fail(err)
				}
				cur.Requires = append(cur.Requires, c)
			case "ensures":
				c, err := mkClause(rest)
				if err != nil {
					return fail(err)
				}
				cur.Ensures = append(cur.Ensures, c)
			case "noinline":
				cur.NoInline = true
			case "ensures_always":
				c, err := mkClause(rest)
				if err != nil {
					return fail(err)
				}
				cur.Ensures = append(cur.Ensures, c)
				cur.EnsuresAlways = append(cur.EnsuresAlways, c)
			case "let":
				i := strings.Index(rest, "=")
				if i < 0 {
					return fail(fmt.Errorf("let name = expr"))
				}
				c, err := mkClause(rest[i+1:])
				if err != nil {
					return fail(err)
				}
				c.Label = strings.TrimSpace(rest[:i])
				cur.LetSrc = append(cur.LetSrc, c)
			case "measure":
				for _, part := range splitTop(rest) {
					c, err := mkClause(part)
					if err != nil {
						return fail(err)
					}
					cur.Measure = append(cur.Measure, c)
				}
			case "assigns":
				cur.HasAssigns = true
				if rest != "" && rest != "nothing" {
					for _, part := range splitTop(rest) {
						c, err := mkClause(part)
						if err != nil {
							return fail(err)
						}
						cur.Assigns = append(cur.Assigns, c)
					}
				}
			case "pure":
				cur.Pure = true
				cur.HasAssigns = true
			case "trusted":
				cur.Trusted = true
				cur.Note = rest
				cs.AssumedList = append(cs.AssumedList, fmt.Sprintf("trusted %s: %s", cur.Key, rest))
			case "assumed":
				cur.Assumed = true
				cur.Note = rest
				cs.AssumedList = append(cs.AssumedList, fmt.Sprintf("assumed %s: %s", cur.Key, rest))
			case "terminates":
				cur.Terminates = true
			case "bounded":
				// bounded <file under /verif/bounded> <TestName> <what is explored, with the bound>
				f := strings.Fields(rest)
				if len(f) < 3 {
					return fail(fmt.Errorf("bounded <file> <TestName> <bound>"))
				}
				cur.Bounded = append(cur.Bounded, BoundedSpec{File: f[0], Test: f[1], Bound: strings.TrimSpace(strings.TrimPrefix(strings.TrimSpace(strings.TrimPrefix(rest, f[0])), f[1]))})
			case "at_call":
				// at_call <substring of callee name> <expr>: expr must hold just before every such call
				f := strings.Fields(rest)
				if len(f) < 2 {
					return fail(fmt.Errorf("at_call <callee> <expr>"))
				}
				c, err := mkClause(strings.TrimSpace(rest[len(f[0]):]))
				if err != nil {
					return fail(err)
				}
				mt := strings.TrimSuffix(f[0], ":")
				always := strings.HasSuffix(mt, "!")
				cur.AtCalls = append(cur.AtCalls, AtCall{Match: strings.TrimSuffix(mt, "!"), C: c, Always: always})
			case "writes":
				// the callee overwrites the contents of this slice parameter (same length): in ensures the name
				// denotes the new contents, old(name) the former ones
				cur.Writes = append(cur.Writes, strings.Fields(rest)...)
			case "retains":
				// the function keeps a reference to this slice parameter (stores it without copying)
				cur.Retains = append(cur.Retains, strings.Fields(rest)...)
			case "returns_alias":
				// the result is (a reslice of) a slice the function also keeps in the heap: callers share its array
				cur.ReturnsAlias = rest
				if cur.ReturnsAlias == "" {
					cur.ReturnsAlias = "declared"
				}
			case "allow_alias":
				cur.AllowAlias = rest
				if cur.AllowAlias == "" {
					cur.AllowAlias = "intended"
				}
				cs.AssumedList = append(cs.AssumedList, fmt.Sprintf("allow_alias %s: two locations may share a backing array here (A-ALIAS not checked in this function): %s", cur.Key, rest))
			case "defines":
				// the result of this pure, deterministic function is named by an uninterpreted spec function
				cur.Defines = strings.TrimSpace(rest)
			case "recursion_assumed":
				cur.RecAssumed = rest
				cs.AssumedList = append(cs.AssumedList, fmt.Sprintf("recursion_assumed %s: %s", cur.Key, rest))
			case "maypanic":
				cur.MayPanic = true
			case "assume_nopanic":
				cur.NoPanic = false
				cur.MayPanic = true
				cs.AssumedList = append(cs.AssumedList, fmt.Sprintf("assume_nopanic %s: index/slice/nil/assert sites in this function (and code inlined into it) are assumed safe here, not proved: %s", cur.Key, rest))
			case "note":
				cur.Note += rest
			case "model":
				if cur.Model == nil {
					cur.Model = map[string]string{}
				}
				f := strings.Fields(rest)
				if len(f) >= 1 {
					cur.Model[f[0]] = strings.Join(f[1:], " ")
				}
			case "loop":
				f := strings.Fields(rest)
				if len(f) < 2 {
					return fail(fmt.Errorf("loop N invariant|decreases expr"))
				}
				n, err := strconv.Atoi(strings.TrimSuffix(f[0], ":"))
				if err != nil {
					return fail(fmt.Errorf("loop ordinal: %v", err))
				}
				kind := f[1]
				body := strings.TrimSpace(strings.TrimPrefix(strings.TrimSpace(rest[len(f[0]):]), kind))
				ls := cur.Loops[n]
				if ls == nil {
					ls = &LoopSpec{}
					cur.Loops[n] = ls
				}
				switch kind {
				case "invariant":
					c, err := mkClause(body)
					if err != nil {
						return fail(err)
					}
					ls.Invariants = append(ls.Invariants, c)
				case "use":
					c, err := mkClause(body)
					if err != nil {
						return fail(err)
					}
					ls.Uses = append(ls.Uses, c)
				case "decreases":
					for _, part := range splitTop(body) {
						c, err := mkClause(part)
						if err != nil {
							return fail(err)
						}
						ls.Decreases = append(ls.Decreases, c)
					}
				default:
					return fail(fmt.Errorf("loop clause %q", kind))
				}
			}
		}
	}
	return nil
}

func splitTop(s string) []string {
	var parts []string
	depth := 0
	last := 0
	for i, c := range s {
		switch c {
		case '(', '[':
			depth++
		case ')', ']':
			depth--
		case ',':
			if depth == 0 {
				parts = append(parts, strings.TrimSpace(s[last:i]))
				last = i + 1
			}
		}
	}
	parts = append(parts, strings.TrimSpace(s[last:]))
	return parts
}

// LoadAll loads the contract files.  The mirror under <verif>/contracts is authoritative (one
// zz_contracts_verif.go per package directory, same relative path as in the repository); the copy
// committed in the repository behind build tag verif is compared with it and differences are noted.
func (cs *Contracts) LoadAll(repo string, verif string, specDir string) error {
	// library specs first: their axioms may be used by lemmas in the contract files
	specs, _ := filepath.Glob(filepath.Join(specDir, "*.spec"))
	sort.Strings(specs)
	for _, f := range specs {
		if err := cs.LoadFile(f, ""); err != nil {
			return err
		}
	}
	root := filepath.Join(verif, "contracts")
	var files []string
	filepath.Walk(root, func(path string, info os.FileInfo, err error) error {
		if err == nil && !info.IsDir() && info.Name() == "zz_contracts_verif.go" {
			files = append(files, path)
		}
		return nil
	})
	sort.Strings(files)
	for _, f := range files {
		rel, _ := filepath.Rel(root, filepath.Dir(f))
		pp := modulePath
		if rel != "." {
			pp = modulePath + "/" + filepath.ToSlash(rel)
		}
		if err := cs.LoadFile(f, pp); err != nil {
			return err
		}
		a, _ := os.ReadFile(f)
		b, err := os.ReadFile(filepath.Join(repo, rel, "zz_contracts_verif.go"))
		switch {
		case err != nil:
			cs.Notes = append(cs.Notes, fmt.Sprintf("contract file %s is missing in the repository; mirror used", filepath.Join(rel, "zz_contracts_verif.go")))
		case string(a) != string(b):
			cs.Notes = append(cs.Notes, fmt.Sprintf("contract file %s in the repository differs from the mirror; mirror used", filepath.Join(rel, "zz_contracts_verif.go")))
		}
	}
	return nil
}

func (cs *Contracts) LookupSpec(pkgPath, name string) *SpecDef {
	if sd, ok := cs.Specs[pkgPath+"::"+name]; ok {
		return sd
	}
	if i := strings.LastIndex(name, "."); i >= 0 {
		q, n := name[:i], name[i+1:]
		for k, sd := range cs.Specs {
			pp := k[:strings.Index(k, "::")]
			if sd.Name == n && (pp == q || strings.HasSuffix(pp, "/"+q)) {
				return sd
			}
		}
		return nil
	}
	if sd, ok := cs.Specs["::"+name]; ok {
		return sd
	}
	return nil
}
