#!/usr/bin/env python3
"""Regenerates the table of DESIGN.md §11 (between the table header and the paragraph 'What this says about
the checks') from seeded/*/meta.json."""
import json, glob, os, re
rows, notes = [], []
n_from_start = n_missed = 0
for d in sorted(glob.glob('/verif/seeded/*/')):
    sid = os.path.basename(d.rstrip('/'))
    m = json.load(open(d + 'meta.json'))
    br = (m.get('breaks') or '').replace('|', '/').replace('\n', ' ')
    if len(br) > 230:
        br = br[:229] + '…'
    det = m.get('detection', '')
    is_open = det.startswith('missed (open)')
    missed = det.startswith('missed') and not is_open
    if is_open:
        n_open = globals().get('n_open', 0) + 1
        globals()['n_open'] = n_open
    elif missed:
        n_missed += 1
    else:
        n_from_start += 1
    obls = m.get('failing_obligations') or []
    if isinstance(obls, str):
        obls = [obls]
    ob = ', '.join('`%s`' % re.sub(r'^C\d\d/', '', re.sub(r'\.json$', '', o)) for o in obls[:3])
    if len(obls) > 3:
        ob += ', …'
    if not obls:
        # first-wave metas name the obligations in the detection text
        t = det.split(': ', 1)[1] if ': ' in det else det.split('caught after ', 1)[-1]
        ob = '`%s`' % t.replace('|', '/')
    if is_open:
        rows.append('| %s | %s | **missed, still open** | — (%s) |' % (sid, br, det.split(': ', 1)[-1].replace('|', '/')))
        notes.append('* **%s** — still missed: %s' % (sid, det.split(': ', 1)[-1]))
        continue
    rows.append('| %s | %s | %s | %s |' % (sid, br, '**missed**, then caught' if missed else 'from the start', ob))
    if missed:
        t = det
        if m.get('strengthening'):
            t = 'missed at first: ' + m['strengthening']
        notes.append('* **%s** — %s' % (sid, t.replace('\n', ' ')))
p = '/verif/DESIGN.md'
s = open(p).read()
head = '| seed | the change | first run | failing obligation(s) now |\n|---|---|---|---|\n'
i = s.index(head)
j = s.index('What this says about the checks')
s = s[:i] + head + '\n'.join(rows) + '\n\nWhat each miss led to:\n\n' + '\n'.join(notes) + '\n\n' + s[j:]
open(p, 'w').write(s)
print('%d seeds: %d caught from the start, %d missed then caught' % (len(rows), n_from_start, n_missed))
