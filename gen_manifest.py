#!/usr/bin/env python3
"""Generates MANIFEST.json from the table below (keeps it valid at all times)."""
import json

claimed = {
 "C06": ("DESIGN.md §4 C06", "Cursor/Selection representation invariants and range postconditions of the real methods of internal/core (Pos, CheckCommand, movers), proved for all states by SMT from go/ssa-generated verification conditions; the movement commands forward-word / backward-word / backward-char / beginning-of-line / end-of-line and insertAutosuggestPartial proved to leave the buffer text unchanged (autosuggestion off or cursor not at the end)",
         "Line.Len == len(*l) trusted (utf8 round trip); main-loop composition A-LOOP; int arithmetic mathematical"),
 "C12": ("DESIGN.md §4 C12", "panic-freedom and loop termination of every function of the inputrc parser (parse.go, New/Parse) for arbitrary rune sequences, plus the $include depth cap; each index/slice/nil/assert site is an obligation",
         "bufio.Scanner, strings.*, unicode.*, strconv.Atoi contracts assumed; Handler methods assumed total; recursion through $include assumed bounded by the proved depth-cap postcondition"),
 "C13": ("DESIGN.md §4 C13", "condition-stack invariant (inner active ==> outer active) and effect-iff-active postconditions of Parser.do/doBind/doSet over ghost call records of the Handler",
         "Handler interface contract assumed (ghost call log); strings.* assumed; known finding: nested $if/$else inside an inactive block (recorded, fixture-locked)"),
 "C07": ("DESIGN.md §4 C07", "lineHistory representation invariant (0 <= pos <= len(items)) for every object, exact effect of Save/Undo/Redo/Reset/Revert on the current line's undo history (same object, truncation, append, older-or-equal position, redo reverses undo), proved for all states",
         "Source interface contract assumed; which commands call Save/SkipSave is the main loop's business (A-LOOP); 2 known findings recorded (redo of unsaved text; Save drops the restored state)"),
 "C16": ("DESIGN.md §4 C16", "kill commands proved against killyank: the line lost exactly d runes starting at the cursor, they are the newest kill, the rest is untouched (P1) and the cursor sits where the range collapsed (P2); yank / vi-put-before insert exactly the kill buffer at the cursor; lemma kill_yank_restores closes the loop; Line.Cut/Insert, Selection.Pos/Text/Cut, Buffers.Write/Active carry it",
         "emacs kills under the hypothesis 'no vi visual selection'; counts other than 1 not covered for vi-delete-char/put (NUL padding observed); word kills (kill-word etc.) only for panic-freedom; Line.Len == len trusted"),
 "C14": ("DESIGN.md §4 C14", "insertCandidate / acceptCandidate / cancelCompletedLine / Cancel proved against 'only the word being completed is rewritten': completed (or real) line == line[:p-|prefix|] ++ value ++ line[p:], the real line untouched while a candidate is only virtually inserted, interrupt restores line and cursor",
         "hypotheses stated as preconditions: FilterPrefix has run (H-FILTER), cursor in range; candidate generation/filter/sort not covered; 2 known findings (byte vs rune prefix length)"),
 "C15": ("DESIGN.md §4 C15", "plain (non-aliased) grids: createRow/createGrid/initCompletionsGrid establish the grid invariant and flatten(rows) == candidate list for every terminal width (real ceiling, nonlinear row arithmetic); moveSelector(+-1,0) is the immediate successor / predecessor in list order and reports done exactly at the last / first cell; firstCell/lastCell; aliased grids (shared descriptions): wrapExcessAliases keeps every candidate in order (flat(rows) == flat(grid)), every row fits in the kept columns (the only ones the selector visits), at least one column is kept and the wrapping loop terminates",
         "the column-by-column walk of an aliased grid (findFirstCandidate) and the group-cycling recursion are not under contract (stated, not bounded-checked); createDescribedRows only for frame, termination and panic-freedom; float64 treated as mathematical real in math.Ceil; 1 defect fixed (zero kept columns: endless wrapping loop)"),
 "C17": ("DESIGN.md §4 C17", "vi-delete-to and vi-yank-to stated against one pair of spec functions opB/opE (= Selection.Pos() after adjustSelectionPending): delete removes line[b:e] and stores it, yank stores the same line[b:e] and leaves the buffer unchanged; dd/yy likewise against lineB/lineE with the same newline rule",
         "viCommandMode and Display.ResetHelpers trusted (completion/hint code); only the operator bodies are proved, the pending-operator hand-off in the main loop is A-LOOP; index safety of the other branches assumed (assume_nopanic)"),
 "C08": ("DESIGN.md §4 C08", "Sources.Write proved against the statement for every bound source in any map order (loop invariant over the ghost key sequence): never when replaying or blank, at most one appended entry equal up to white space, exactly one unless the source is full or the line duplicates its last entry; Accept records only when err == nil; LineAccepted returns the accepted buffer; memory source checked against the Source interface contract",
         "Source interface contract assumed for application sources (fileHistory.Write not yet verified against it); sources bound under different names assumed distinct; the accept-* commands' choice of Accept call is A-LOOP"),
 "C09": ("DESIGN.md §4 C09", "Walk/Fetch/GetLast/InsertMatch/match/InferNext/getLine/restoreLineBuffer: sources never modified (frame obligations), history position stays in [-1, Len], every GetLine index in range at both ends, the buffer ends up as a stored entry (in order, most recent first), an edited entry, or the text being typed",
         "Source interface contract assumed; substring search treated through regexp (assumed total, no match semantics); incremental search (Ctrl-R/Ctrl-S) not covered; search text cut by rune position on a byte string noted"),
 "C19": ("DESIGN.md §4 C19", "Encontrol/Decontrol/Enmeta/Demeta/IsControl/IsMeta proved equal to integer spec functions (bit masks translated exactly) with their round-trip lemmas; escape proved to append escr1(c) for every single ASCII rune and unescapeRunes/Unescape to produce decr1(t) for every single token (real loops, real switch); lemma decr1(escr1(c)) == [c] for every rune of the domain, both the bind and the macro spelling",
         "per rune / per token only: the induction over sequences (unescape of a concatenation) and runes >= 0x80 inside escape's range-over-string are not proved; \\x and octal tokens excluded (non-constant bit-or abstracted); dump commands' printing assumed transparent; unicode.IsPrint/ToUpper assumed on ASCII; 1 known finding (0x80-0x9F, 0xFF)"),
 "C03": ("DESIGN.md §4 C03", "matchBind proved against quantified spec functions over the whole bind table in any map order (exact match sound and complete, prefixed non-empty iff the keys are a proper prefix of some converted sequence; in-place sort modelled as a skolemised permutation); dispatchKeys proved by loop invariant: keys consumed in order, prefix waits, an exact match runs its own binding, the key that rules out longer bindings falls back on the shorter binding whose keys are reported as matched, nothing runs on an empty stack; MatchMain/MatchLocal key accounting: the bytes removed from the stack are exactly the converted sequence of the binding returned; run feeds the unescaped macro body and the pop order puts macro keys first",
         "typed keys only in the dispatch statements (no macro keys pending, no binding kept from an earlier prefix), plain bind tables (isearch / non-incremental search restrictions assumed safe), vi ESC special-casing excluded (emacs main keymaps); ConvertMeta named by an uninterpreted function (pure, frame and termination proved); that Readline enters run once per resolved bind is A-LOOP"),
 "C02": ("DESIGN.md §4 C02", "per keystroke chain on the real functions: MatchMain resolves a typed printable ASCII byte bound to self-insert to that binding with the byte as the only caller key and nothing else consumed (for every bind table satisfying the stated hypothesis, any meta-variable setting); selfInsert inserts exactly that character at the cursor and advances by one (Quote / Unescape / TrimSuffix / autopair early exit under contract); Line.Insert, Cursor.InsertAt, Accept/LineAccepted return the buffer",
         "the induction over the typed string is the main loop (A-LOOP); bind-table hypothesis H-TABLE (the byte is bound to self-insert and starts no longer sequence) is a precondition, not checked against DefaultBinds(); pair characters excluded (autopairs); uniseg.StringWidth assumed 1 on printable ASCII; 1 known finding: all non-ASCII input is dropped by the byte dispatcher"),
 "C18": ("DESIGN.md §4 C18", "RecordKeys appends exactly the matched keys (skipping the key that started recording), StopRecord stores EscapeMacro of the recorded keys under the register and as last macro, RunLastMacro and RunMacro feed runes(Unescape(stored)) in order, PopKey/PeekKey pop fed keys first and in order; with the C19 lemma Unescape(EscapeMacro(k)) == k per key this is replay == retype for ASCII keys",
         "that every key typed while recording passes through RecordKeys once is the main loop (A-LOOP); Unescape/EscapeMacro named by uninterpreted functions here (their per-token behaviour is C19); 1 known finding: runes >= 0x80 are replayed as one truncated byte; ESC-timing dependence of replayed vi macros (one chunk) not covered"),
 "C05": ("DESIGN.md §4 C05", "chunk independence of the sequential key consumers through a ghost input stream whose read returns an arbitrary chunk length (uninterpreted chunklen): readInputFiltered returns exactly the next chunklen bytes; WaitAvailableKeys never loses, duplicates or reorders a byte (buf ++ unread stream is invariant) and reads nothing while keys are pending; dispatchKeys/MatchMain/MatchLocal/PopKey consume the stack in order (shared with C03); ReadKey stated against 'first unread character' (known findings)",
         "ESC timing and the cursor-position-report hand-off between goroutines are not decided (channels abstracted; extractCursorPos trusted under the hypothesis that no report is in flight); convert-meta conversion of a chunk excluded (cfg == nil); 4 known findings (ReadKey ignores buffered keys / drops the rest of its chunk; non-EOF read error busy-loops)"),
 "C11": ("DESIGN.md §4 C11", "terminal mode only: Readline proved against ensures_always tmode() == old(tmode()) over a ghost termios: at every return and, for every call of its body that may panic (a bound command included), after the deferred calls armed at that point have run on an arbitrary heap; the saved mode cannot change in between because term.State.termios is a final field (no store outside construction anywhere in the module, checked over the SSA)",
         "MakeRaw / Restore trusted against the ghost (two ioctls; Restore assumed to succeed, Readline ignores its error); the cursor row and the cursor style after return need a terminal emulator as oracle and are not covered (same reason as C04); a panic raised by a deferred call itself is not followed; signals / os.Exit not modelled"),
 "C01": ("DESIGN.md §4 C01", "panic-freedom (every index, slice, nil dereference, type assertion, explicit panic and callee precondition is an obligation) and termination (loop variants, recursion measures, counted loops) of the functions under contract, for every state satisfying their stated preconditions: the kernel (Line, Cursor, Selection, Iterations, key stack, history sources and undo, keymap dispatch, inputrc parser, completion grid, macro engine) and 66 bound commands proved with no annotation beyond the standing shell invariant fullok (30 of them also proved to preserve it)",
         "scope is the listed functions only: about 110 bound commands (completion, incremental search, accept-line family, dump-*, editor commands) are not covered; that the main loop re-establishes each command's precondition (cursor re-clamped by CheckCommand, components never nil) is A-LOOP; functions marked assume_nopanic are counted for their postconditions only; deadlock / blocked-in-read (goroutines, channels) not decided; termination of uncontracted callees is listed as a gap per call site in the evidence; 6 keyboard-reachable panics fixed, known findings shared with C05 (ReadKey, non-EOF read error spin)"),
}
not_applicable = {
 "C10": "what decides durability is outside the code a contract can be put on: the record format and its round trip are encoding/json's, line splitting and its 64 KiB token limit are bufio.Scanner's, append atomicity and what a crash leaves behind are the kernel's. Every one of them would enter as an assumed contract (and the JSON link needs a specification over an interface-boxed anonymous struct, which the contract language cannot name), leaving about twenty lines of glue in file.go whose proof would restate its assumptions; the two defects the property text itself names (reader stops at the first record over 64 KiB; a torn tail swallows the next append) are consequences of those library behaviours, not of an obligation on repository code. DESIGN.md §4 C10",
 "C04": "needs a VT100 cell-grid interpreter of the emitted byte stream as oracle; contracts on the repository's functions cannot state what a terminal shows (DESIGN.md §4 C04)",
 "C20": "quantifies over interleavings of the SIGWINCH goroutine / concurrent Printf with the main loop; the VC generator is sequential and there is no lock to attach a guarded_by contract to (DESIGN.md §4 C20)",
}
pending = {
}
import os, sys
checks = []
for pid in sorted(claimed):
    ref, text, note = claimed[pid]
    checks.append({
        "property_id": pid,
        "quick_cmd": f"bin/check {pid} quick",
        "thorough_cmd": f"bin/check {pid} thorough",
        "evidence_file": f"/verif/evidence/{pid}.json",
        "replay_cmd_template": "cat {path}",
        "engine": "rlverify",
        "level_claimed": {"category": "proof", "text": text, "design_ref": ref},
        "level_note": note,
        "technique": "contract-based deductive verification: weakest-precondition VCs over go/ssa of the real code, contracts in comment-only files, discharged by z3/cvc5",
    })
na = [{"property_id": k, "reason": v} for k, v in sorted({**not_applicable, **{k: v for k, v in pending.items() if k not in claimed}}.items())]
m = {
 "version": 1,
 "setup_cmd": "sh /verif/setup.sh",
 "hooks": {
  "guard": "verif",
  "enable": "go build -tags verif (the guarded files zz_contracts_verif.go are comment-only contract files; the verifier loads /repo with -tags=verif)",
  "baseline_off_cmd": "cd /repo && GOFLAGS=-mod=mod go test -vet=off -count=1 ./...",
  "source_commits": [l.strip() for l in os.popen("git -C /repo log --format=%h --grep='^verif:'").read().split()],
  "add_only": True,
 },
 "engines": [{"name": "rlverify", "path": "/verif/engine", "serves_properties": sorted(claimed), "kind_free_text": "VC generator over go/ssa (x/tools v0.29.0) + contract language + z3 4.8.12 / z3 5.1.0 / cvc5 1.0.3 portfolio"}],
 "checks": checks,
 "not_applicable": na,
 "notes": "Contracts: /verif/contracts (authoritative mirror) = zz_contracts_verif.go files committed in /repo behind build tag verif. Assumed library contracts: /verif/specs/stdlib.spec. Known findings: /verif/known_findings.json. fix: commits in /repo: " + ", ".join(l.strip() for l in os.popen("git -C /repo log --format=%h --grep='^fix:'").read().split()),
}
json.dump(m, open("/verif/MANIFEST.json", "w"), indent=1)
print("MANIFEST.json written:", len(checks), "checks,", len(na), "not applicable")
