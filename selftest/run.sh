#!/bin/sh
# Must-fail / must-pass corpus for the verifier itself (DESIGN.md §2.6).
# Each mustfail/<name>.patch has a first line "# expect: <property> <substring of the failing obligation's replay file name>".
# Each benign/<name>.patch has "# expect: <property> none".
# Patches are applied to a scratch copy of /repo outside /repo and /verif, removed afterwards.
set -u
S=/tmp/rlv-selftest.$$
# VERIF_ROOT: a frozen copy of /verif (contracts, specs, known findings, seeded, selftest, bin/rlverify) so that a long
# run is not disturbed by edits of the live mirror; default: /verif itself
VR=${VERIF_ROOT:-/verif}
RLV="$VR/bin/rlverify"
export VERIF_SCRATCH_OUT=scratch-selftest.$$
rc=0
# the corpus only looks at which obligation fails; counterexample replay is exercised separately below
export VERIF_NOREPLAY=1
only=${1:-}
for p in $VR/selftest/mustfail/*.patch $VR/selftest/benign/*.patch; do
  [ -f "$p" ] || continue
  case "$p" in *"$only"*) ;; *) continue;; esac
  exp=$(head -1 "$p" | sed 's/^# expect: //')
  prop=$(echo "$exp" | cut -d' ' -f1)
  want=$(echo "$exp" | cut -d' ' -f2-)
  rm -rf $S; mkdir -p $S; (cd /repo && git archive HEAD) | tar -x -C $S
  if ! (cd $S && patch -p1 -s < "$p"); then echo "SELFTEST ERROR: $p does not apply"; rc=1; continue; fi
  if ! (cd $S && GOFLAGS=-mod=mod GOPROXY=off go build ./... >/dev/null 2>&1); then echo "SELFTEST ERROR: $p does not compile"; rc=1; continue; fi
  out=$($RLV check -verif $VR -repo $S "$prop" 2>&1)
  if [ "$want" = "none" ]; then
    if echo "$out" | grep -q "^VIOLATION"; then echo "SELFTEST FAIL (false alarm): $(basename $p): $(echo "$out" | grep '^VIOLATION' | head -3)"; rc=1; else echo "ok   benign   $(basename $p)"; fi
  else
    if echo "$out" | grep "^VIOLATION" | grep -q "$want"; then echo "ok   mustfail $(basename $p) -> $(echo "$out" | grep '^VIOLATION' | grep "$want" | head -1 | sed 's/.*replays.//')"; else echo "SELFTEST FAIL (missed): $(basename $p) expected $want; got: $(echo "$out" | tail -2)"; rc=1; fi
  fi
done
# replay: two seeded changes whose failing input must be reproduced on the real code
if [ -z "$only" ] || echo replay | grep -q "$only"; then
  for spec in "C12-2:C12:readNext_nopanic_index" "C06-2:C06:Pos_post_in_range"; do
    sd=$(echo $spec | cut -d: -f1); prop=$(echo $spec | cut -d: -f2); want=$(echo $spec | cut -d: -f3)
    rm -rf $S; mkdir -p $S; (cd /repo && git archive HEAD) | tar -x -C $S
    (cd $S && patch -p1 -s < $VR/seeded/$sd/patch.diff)
    out=$(VERIF_NOREPLAY= $RLV check -verif $VR -repo $S "$prop" 2>&1)
    if echo "$out" | grep "^VIOLATION" | grep "$want" | grep -vq "no-failing-input-found"; then echo "ok   replay   $sd: failing input reproduced for $want"; else echo "SELFTEST FAIL (replay): $sd expected a reproduced failing input for $want"; rc=1; fi
  done
fi
# the contract validator must report a (deliberately negated) proved clause as a disagreement
if [ -z "$only" ] || echo validator | grep -q "$only"; then
  out=$(VERIF_VALIDATE_SELFTEST=Encontrol $RLV validate -verif $VR C19 2>&1)
  if echo "$out" | grep -q "VALIDATE-DISAGREE inputrc.Encontrol"; then echo "ok   validator reports the negated clause of Encontrol"; else echo "SELFTEST FAIL: the contract validator did not report a negated clause"; rc=1; fi
  out=$($RLV validate -verif $VR C19 2>&1)
  if echo "$out" | grep -q "VALIDATE-DISAGREE"; then echo "SELFTEST FAIL: the contract validator disagrees on the unchanged tree"; rc=1; else echo "ok   validator agrees with the proofs on the unchanged tree (C19)"; fi
fi
# lemma canaries: must NOT prove (an inconsistent theory would prove them)
if [ -z "$only" ] || echo canary | grep -q "$only"; then
  out=$($RLV func -verif $VR zz_canary 2>&1)
  n=$(echo "$out" | grep -c "^== lemma zz_canary")
  f=$(echo "$out" | grep -c "FAIL lemma:zz_canary")
  if [ "$n" -ge 1 ] && [ "$n" = "$f" ]; then echo "ok   canary   $n lemma canaries fail as they must"; else echo "SELFTEST FAIL: lemma canary proved ($n canaries, $f failing)"; rc=1; fi
fi
# the seeded changes written by independent sub-agents (/verif/seeded/<prop>-<n>/patch.diff) must stay caught
for d in $VR/seeded/*/; do
  p=$d/patch.diff
  [ -f "$p" ] || continue
  case "$p" in *"$only"*) ;; *) continue;; esac
  prop=$(basename $d | cut -d- -f1)
  # a seeded change recorded as not (yet) caught is listed, not failed: DESIGN section 11 says why it is missed
  if grep -q '"detection": "missed (open)' $d/meta.json 2>/dev/null; then echo "open miss (recorded) seeded $(basename $d)"; continue; fi
  rm -rf $S; mkdir -p $S; (cd /repo && git archive HEAD) | tar -x -C $S
  if ! (cd $S && patch -p1 -s < "$p"); then echo "SELFTEST ERROR: $p does not apply"; rc=1; continue; fi
  if ! (cd $S && GOFLAGS=-mod=mod GOPROXY=off go build ./... >/dev/null 2>&1); then echo "SELFTEST ERROR: $p does not compile"; rc=1; continue; fi
  out=$($RLV check -verif $VR -repo $S "$prop" 2>&1)
  if echo "$out" | grep -q "^VIOLATION property=$prop"; then echo "ok   seeded   $(basename $d) -> $(echo "$out" | grep '^VIOLATION' | head -1 | sed 's/.*replays.//')"; else echo "SELFTEST FAIL (missed): seeded $(basename $d); got: $(echo "$out" | tail -2)"; rc=1; fi
done
rm -rf $S $VR/tmp/$VERIF_SCRATCH_OUT
exit $rc
