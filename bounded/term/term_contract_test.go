//go:build linux

package term

// Bounded stand-in for the trusted contracts of MakeRaw and Restore (C11, /verif/contracts/internal/term):
//
//	MakeRaw  [returns-previous-mode]  result1 == nil ==> result0.termios == old(tmode())
//	Restore  [sets-the-given-mode]    tmode() == state.termios
//
// tmode() is the termios the kernel holds for the terminal: here a fresh pseudo-terminal, read with the
// same TCGETS ioctl.  VERIF_BOUND pseudo-random initial settings (flag words and VMIN/VTIME) are tried.
// This is a test of the contract on the real code with a stated bound, not a proof.

import (
	"fmt"
	"math/rand"
	"os"
	"strconv"
	"testing"

	"golang.org/x/sys/unix"
)

func verifOpenPty(t *testing.T) (*os.File, *os.File) {
	ptmx, err := os.OpenFile("/dev/ptmx", os.O_RDWR|unix.O_NOCTTY, 0)
	if err != nil {
		t.Skipf("no /dev/ptmx: %v", err)
	}
	if err := unix.IoctlSetPointerInt(int(ptmx.Fd()), unix.TIOCSPTLCK, 0); err != nil {
		ptmx.Close()
		t.Skipf("unlockpt: %v", err)
	}
	n, err := unix.IoctlGetInt(int(ptmx.Fd()), unix.TIOCGPTN)
	if err != nil {
		ptmx.Close()
		t.Skipf("ptsname: %v", err)
	}
	pts, err := os.OpenFile(fmt.Sprintf("/dev/pts/%d", n), os.O_RDWR|unix.O_NOCTTY, 0)
	if err != nil {
		ptmx.Close()
		t.Skipf("open pts: %v", err)
	}
	return ptmx, pts
}

func TestVerifBoundedTermContracts(t *testing.T) {
	bound, _ := strconv.Atoi(os.Getenv("VERIF_BOUND"))
	if bound <= 0 {
		bound = 64
	}
	ptmx, pts := verifOpenPty(t)
	defer ptmx.Close()
	defer pts.Close()
	fd := int(pts.Fd())
	base, err := unix.IoctlGetTermios(fd, ioctlReadTermios)
	if err != nil {
		t.Skipf("TCGETS on the pty: %v", err)
	}
	iflags := []uint32{unix.IGNBRK, unix.BRKINT, unix.PARMRK, unix.ISTRIP, unix.INLCR, unix.IGNCR, unix.ICRNL, unix.IXON, unix.IXOFF, unix.IUTF8}
	oflags := []uint32{unix.OPOST, unix.ONLCR, unix.OCRNL}
	cflags := []uint32{unix.CS7, unix.CS8, unix.PARENB, unix.PARODD, unix.CSTOPB, unix.HUPCL}
	lflags := []uint32{unix.ECHO, unix.ECHONL, unix.ECHOE, unix.ECHOK, unix.ICANON, unix.ISIG, unix.IEXTEN, unix.NOFLSH, unix.TOSTOP}
	rng := rand.New(rand.NewSource(1))
	flip := func(w *uint32, fl []uint32) {
		for _, f := range fl {
			if rng.Intn(2) == 0 {
				*w ^= f
			}
		}
	}
	cases := 0
	for i := 0; i < bound; i++ {
		want := *base
		if i > 0 { // case 0: the pty's default settings
			flip(&want.Iflag, iflags)
			flip(&want.Oflag, oflags)
			flip(&want.Cflag, cflags)
			flip(&want.Lflag, lflags)
			want.Cc[unix.VMIN] = uint8(rng.Intn(4))
			want.Cc[unix.VTIME] = uint8(rng.Intn(8))
		}
		if err := unix.IoctlSetTermios(fd, ioctlWriteTermios, &want); err != nil {
			continue // the kernel refused this combination: not a case
		}
		before, err := unix.IoctlGetTermios(fd, ioctlReadTermios) // old(tmode())
		if err != nil {
			t.Fatalf("TCGETS: %v", err)
		}
		state, err := MakeRaw(fd)
		if err != nil {
			continue // result1 != nil: the clause under test says nothing
		}
		cases++
		if state == nil {
			t.Fatalf("case %d: MakeRaw returned (nil, nil)", i)
		}
		if state.termios != *before {
			t.Fatalf("case %d: MakeRaw [returns-previous-mode] fails on the real code:\n  terminal before: %+v\n  state returned:  %+v", i, *before, state.termios)
		}
		if err := Restore(fd, state); err != nil {
			t.Fatalf("case %d: Restore: %v", i, err)
		}
		after, err := unix.IoctlGetTermios(fd, ioctlReadTermios)
		if err != nil {
			t.Fatalf("TCGETS: %v", err)
		}
		if *after != state.termios {
			t.Fatalf("case %d: Restore [sets-the-given-mode] fails on the real code:\n  state given:    %+v\n  terminal after: %+v", i, state.termios, *after)
		}
	}
	if cases == 0 {
		t.Skip("no case could be set up on this pty")
	}
	t.Logf("bounded: %d cases", cases)
}
