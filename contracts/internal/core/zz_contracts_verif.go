//go:build verif

// Contracts for package core (comment-only; checked by /verif/bin/rlverify).
// See /verif/DESIGN.md §2.2 for the contract language.

package core

//@ pred cvalid(c *Cursor) = c != nil && c.line != nil
//@ pred cok(c *Cursor) = 0 <= c.pos && c.pos <= len(*c.line) && -1 <= c.mark && c.mark <= len(*c.line) - 1
// cclamp: the effect of CheckAppend, relative to the old state (line unchanged).
//@ pred cclamp(c *Cursor) = cok(c) && c.pos == max(0, min(len(*c.line), old(c.pos))) && (old(-1 <= c.mark && c.mark <= len(*c.line) - 1) ==> c.mark == old(c.mark))

//@ func (*Line).Len
//@   trusted utf8.RuneCountInString(string(rs)) == len(rs) for every rune slice: each rune, valid or not, encodes to bytes that decode as exactly one rune
//@   requires l != nil
//@   pure
//@   ensures result == len(*l)

//@ func (*Cursor).CheckAppend
//@   props C06 C01
//@   terminates
//@   requires cvalid(c)
//@   assigns c.pos, c.mark
//@   ensures cclamp(c)

//@ func (*Cursor).Inc
//@   props C06 C01
//@   terminates
//@   requires cvalid(c)
//@   assigns c.pos
//@   ensures old(c.pos) < len(*c.line) ==> c.pos == old(c.pos) + 1
//@   ensures old(c.pos) >= len(*c.line) ==> c.pos == old(c.pos)

//@ func (*Cursor).Dec
//@   props C06 C01
//@   terminates
//@   requires cvalid(c)
//@   assigns c.pos
//@   ensures old(c.pos) > 0 ==> c.pos == old(c.pos) - 1
//@   ensures old(c.pos) <= 0 ==> c.pos == old(c.pos)

//@ func (*Cursor).Set
//@   props C06 C01
//@   terminates
//@   requires cvalid(c)
//@   assigns c.pos, c.mark
//@   ensures cok(c)
//@   ensures 0 <= pos && pos <= len(*c.line) ==> c.pos == pos
//@   ensures pos < 0 ==> c.pos == 0
//@   ensures pos > len(*c.line) ==> c.pos == len(*c.line)

//@ func (*Cursor).Pos
//@   props C06 C01
//@   terminates
//@   requires cvalid(c)
//@   assigns c.pos, c.mark
//@   ensures cclamp(c)
//@   ensures result == c.pos
//@   ensures 0 <= result && result <= len(*c.line)

//@ func (*Cursor).Move
//@   props C06 C01
//@   terminates
//@   requires cvalid(c)
//@   assigns c.pos, c.mark
//@   ensures cok(c)
//@   ensures c.pos == max(0, min(len(*c.line), old(c.pos) + offset))

//@ func (*Cursor).Char
//@   props C06 C01
//@   terminates
//@   requires cvalid(c)
//@   assigns c.pos, c.mark
//@   ensures cclamp(c)
//@   ensures c.pos < len(*c.line) ==> result == (*c.line)[c.pos]
//@   ensures c.pos >= len(*c.line) ==> result == 0

//@ func (*Line).checkPosRange
//@   props C06 C01
//@   terminates
//@   requires l != nil
//@   pure
//@   ensures result == max(0, min(len(*l), pos))

//@ func (*Line).Find
//@   props C06 C01 C16
//@   terminates
//@   requires l != nil
//@   pure
//@   ensures result == -1 || (0 <= result && result < len(*l) && (*l)[result] == char)
//@   let cp = max(0, min(len(*l), pos))
//@   ensures result != -1 && forward ==> result > cp
//@   ensures result != -1 && !forward ==> result < cp
//@   ensures forward && result != -1 ==> all(k, cp + 1, result, (*l)[k] != char)
//@   ensures forward && result == -1 ==> all(k, cp + 1, len(*l), (*l)[k] != char)
//@   ensures !forward && result != -1 ==> all(k, result + 1, cp, (*l)[k] != char)
//@   ensures !forward && result == -1 ==> all(k, 0, cp, (*l)[k] != char)
//@   loop 1 invariant 0 <= pos && pos <= len(*l) && len(*l) > 0
//@   loop 1 invariant forward ==> pos >= cp && all(k, cp + 1, pos + 1, k < len(*l) ==> (*l)[k] != char)
//@   loop 1 invariant !forward ==> pos <= cp && all(k, pos, cp, (*l)[k] != char)
//@   loop 1 decreases ite(forward, len(*l) - pos, pos)

//@ func (*Cursor).onSpace
//@   props C06 C01
//@   terminates
//@   requires cvalid(c)
//@   assigns c.pos, c.mark
//@   ensures cclamp(c)
//@   ensures result <==> c.pos < len(*c.line) && ((*c.line)[c.pos] == ' ' || (*c.line)[c.pos] == '\n' || (*c.line)[c.pos] == '\t')

//@ func (*Cursor).ToFirstNonSpace
//@   props C06 C01
//@   terminates
//@   requires cvalid(c)
//@   assigns c.pos, c.mark
//@   ensures len(*c.line) > 0 ==> cok(c)
//@   ensures len(*c.line) == 0 ==> c.pos == old(c.pos) && c.mark == old(c.mark)
//@   loop 1 invariant len(*c.line) > 0 && c.pos <= len(*c.line)
//@   loop 1 decreases ite(forward, len(*c.line) - c.pos, c.pos)

//@ func (*Cursor).OnEmptyLine
//@   props C06 C01
//@   terminates
//@   requires cvalid(c) && 0 <= c.pos && c.pos <= len(*c.line)
//@   pure
//@   ensures len(*c.line) == 0 ==> result
//@   ensures len(*c.line) > 0 && c.pos == 0 ==> (result <==> (*c.line)[0] == '\n')
//@   ensures len(*c.line) > 0 && c.pos == len(*c.line) ==> (result <==> (*c.line)[c.pos - 1] == '\n')
//@   ensures 0 < c.pos && c.pos < len(*c.line) ==> (result <==> ((*c.line)[c.pos] == '\n' && (*c.line)[c.pos - 1] == '\n'))

//@ pred ccmd(c *Cursor) = cok(c) && (c.pos == len(*c.line) ==> (len(*c.line) == 0 || (*c.line)[len(*c.line) - 1] == '\n')) && (c.pos < len(*c.line) && (*c.line)[c.pos] == '\n' ==> (c.pos == 0 || (*c.line)[c.pos - 1] == '\n'))

//@ func (*Cursor).CheckCommand
//@   props C06 C01
//@   terminates
//@   requires cvalid(c)
//@   assigns c.pos, c.mark
//@   ensures ccmd(c)

//@ func (*Cursor).BeginningOfLine
//@   props C06 C01
//@   terminates
//@   requires cvalid(c)
//@   assigns c.pos, c.mark
//@   ensures ccmd(c)

//@ func (*Cursor).EndOfLine
//@   props C06 C01
//@   terminates
//@   requires cvalid(c) && 0 <= c.pos && c.pos <= len(*c.line)
//@   assigns c.pos, c.mark
//@   ensures ccmd(c)

//@ func (*Cursor).EndOfLineAppend
//@   props C06 C01
//@   terminates
//@   requires cvalid(c) && 0 <= c.pos && c.pos <= len(*c.line)
//@   assigns c.pos, c.mark
//@   ensures cok(c)

//@ func (*Cursor).SetMark
//@   props C06 C01
//@   terminates
//@   requires cvalid(c)
//@   assigns c.pos, c.mark
//@   ensures 0 <= c.pos && c.pos <= len(*c.line) && c.mark == c.pos

//@ func (*Cursor).Mark
//@   props C06 C01
//@   terminates
//@   requires c != nil
//@   pure
//@   ensures result == c.mark

//@ func (*Cursor).ResetMark
//@   props C06 C01
//@   terminates
//@   requires c != nil
//@   assigns c.mark
//@   ensures c.mark == -1
