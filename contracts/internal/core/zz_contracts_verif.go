//go:build verif

// Contracts for package core (comment-only; checked by /verif/bin/rlverify).
// See /verif/DESIGN.md §2.2 for the contract language.

package core

//@ pred cvalid(c *Cursor) = c != nil && c.line != nil
//@ pred cok(c *Cursor) = 0 <= c.pos && c.pos <= len(*c.line) && -1 <= c.mark && c.mark <= len(*c.line) - 1

//@ func (*Line).Len
//@   trusted utf8.RuneCountInString(string(rs)) == len(rs) for every rune slice: each rune, valid or not, encodes to bytes that decode as exactly one rune
//@   requires l != nil
//@   pure
//@   ensures result == len(*l)

//@ func (*Cursor).CheckAppend
//@   props C06 C01
//@   terminates
//@   requires cvalid(c)
//@   assigns c.pos, c.mark
//@   ensures cok(c)
//@   ensures old(0 <= c.pos && c.pos <= len(*c.line)) ==> c.pos == old(c.pos)
//@   ensures old(c.pos) < 0 ==> c.pos == 0
//@   ensures old(c.pos) > len(*c.line) ==> c.pos == len(*c.line)
//@   ensures old(-1 <= c.mark && c.mark <= len(*c.line) - 1) ==> c.mark == old(c.mark)

//@ func (*Cursor).Inc
//@   props C06 C01
//@   terminates
//@   requires cvalid(c)
//@   assigns c.pos
//@   ensures old(c.pos) < len(*c.line) ==> c.pos == old(c.pos) + 1
//@   ensures old(c.pos) >= len(*c.line) ==> c.pos == old(c.pos)

//@ func (*Cursor).Dec
//@   props C06 C01
//@   terminates
//@   requires cvalid(c)
//@   assigns c.pos
//@   ensures old(c.pos) > 0 ==> c.pos == old(c.pos) - 1
//@   ensures old(c.pos) <= 0 ==> c.pos == old(c.pos)

//@ func (*Cursor).Set
//@   props C06 C01
//@   terminates
//@   requires cvalid(c)
//@   assigns c.pos, c.mark
//@   ensures cok(c)
//@   ensures 0 <= pos && pos <= len(*c.line) ==> c.pos == pos
//@   ensures pos < 0 ==> c.pos == 0
//@   ensures pos > len(*c.line) ==> c.pos == len(*c.line)

//@ func (*Cursor).Pos
//@   props C06 C01
//@   terminates
//@   requires cvalid(c)
//@   assigns c.pos, c.mark
//@   ensures cok(c)
//@   ensures result == c.pos
//@   ensures 0 <= result && result <= len(*c.line)

//@ func (*Cursor).Move
//@   props C06 C01
//@   terminates
//@   requires cvalid(c)
//@   assigns c.pos, c.mark
//@   ensures cok(c)
//@   ensures c.pos == max(0, min(len(*c.line), old(c.pos) + offset))

//@ func (*Cursor).Char
//@   props C06 C01
//@   terminates
//@   requires cvalid(c)
//@   assigns c.pos, c.mark
//@   ensures cok(c)
//@   ensures c.pos < len(*c.line) ==> result == (*c.line)[c.pos]
//@   ensures c.pos >= len(*c.line) ==> result == 0
