//go:build verif

// Contracts for package keymap (comment-only; checked by /verif/bin/rlverify).

package keymap

//@ pred kmvalid(m *Engine) = m != nil && m.config != nil && m.config.Vars != nil && m.keys != nil && m.iterations != nil

//@ func (*Engine).PrintCursor
//@   props C17 C01 C11
//@   terminates
//@   requires kmvalid(m)
//@   pure

//@ func (*Engine).UpdateCursor
//@   props C17 C01 C11
//@   terminates
//@   requires kmvalid(m)
//@   pure

//@ func (*Engine).SetMain
//@   props C17 C01
//@   terminates
//@   requires kmvalid(m)
//@   assigns m.main
//@   ensures m.main == keymap

//@ func (*Engine).SetLocal
//@   props C17 C01
//@   terminates
//@   requires kmvalid(m)
//@   assigns m.local
//@   ensures m.local == keymap

//@ func (*Engine).Main
//@   props C17 C01
//@   terminates
//@   requires m != nil
//@   pure
//@   ensures result == m.main

//@ func (*Engine).Local
//@   props C17 C01
//@   terminates
//@   requires m != nil
//@   pure
//@   ensures result == m.local

//@ func (*Engine).ActiveCommand
//@   props C17 C01
//@   terminates
//@   requires m != nil
//@   pure
//@   ensures result == m.active

//@ func (*Engine).IsPending
//@   props C17 C01
//@   terminates
//@   requires m != nil
//@   pure
//@   ensures result <==> (len(m.pending) > 0 && m.active.Action == m.pending[0].Action)

//@ func (*Engine).Pending
//@   props C17 C01
//@   terminates
//@   requires kmvalid(m)
//@   assigns m.local, m.skip, m.pending
//@   ensures m.pending == old(m.pending) + unit(m.active) && m.skip

//@ func (*Engine).CancelPending
//@   props C17 C01
//@   terminates
//@   requires kmvalid(m)
//@   assigns m.local, m.pending
//@   ensures old(len(m.pending)) > 0 ==> m.pending == old(m.pending)[:old(len(m.pending)) - 1]
//@   ensures old(len(m.pending)) == 0 ==> m.pending == old(m.pending)
