//go:build verif

// Contracts for package history (comment-only; checked by /verif/bin/rlverify).

package history

// ---------------------------------------------------------------------------------------
// The Source interface: abstract view entries(s) = the stored lines, oldest first.

//@ ghost entries(s Source) []string

//@ fntype (Source).Len
//@   assumed interface contract (application-supplied sources must satisfy it; memory and fileHistory are checked against the same clauses)
//@   pure
//@   ensures result == len(entries(self))

//@ fntype (Source).GetLine
//@   assumed interface contract: total (never panics); in range it returns the stored line and no error
//@   pure
//@   ensures 0 <= p0 && p0 < len(entries(self)) ==> result1 == nil && result0 == entries(self)[p0]

//@ fntype (Source).Write
//@   assumed interface contract: appends at most one entry; earlier entries are never modified
//@   assigns entries(self)
//@   ensures entries(self) == old(entries(self)) || (len(entries(self)) == old(len(entries(self))) + 1 && entries(self)[:old(len(entries(self)))] == old(entries(self)))

// memory: entries(h) is h.items
//@ func (*memory).Len
//@   props C08 C09 C01
//@   terminates
//@   requires h != nil
//@   pure
//@   ensures result == len(h.items)

//@ func (*memory).GetLine
//@   props C08 C09 C01
//@   terminates
//@   requires h != nil
//@   pure
//@   ensures 0 <= i && i < len(h.items) ==> result1 == nil && result0 == h.items[i]

//@ func (*memory).Write
//@   props C08 C09 C01
//@   terminates
//@   requires h != nil
//@   assigns h.items
//@   ensures len(h.items) == old(len(h.items)) + 1 && h.items[:old(len(h.items))] == old(h.items) && h.items[old(len(h.items))] == s

// fileHistory: entries(h)[k] is h.lines[k].Block
//@ func (*fileHistory).Len
//@   props C08 C09 C10 C01
//@   terminates
//@   requires h != nil
//@   pure
//@   ensures result == len(h.lines)

//@ func (*fileHistory).GetLine
//@   props C08 C09 C10 C01
//@   terminates
//@   requires h != nil
//@   pure
//@   ensures 0 <= pos && pos < len(h.lines) ==> result1 == nil && result0 == h.lines[pos].Block

// ---------------------------------------------------------------------------------------
// Undo history (C07)

// RI: the undo position of every line history lies inside its item list.
//@ pred lhok(x *lineHistory) = 0 <= x.pos && x.pos <= len(x.items)
//@ pred allok() = allobj(x, "*lineHistory", lhok(x))
//@ pred hvalid(h *Sources) = h != nil && h.line != nil && h.cursor != nil && h.cursor.line == h.line && h.list != nil && h.lines != nil && (len(h.list) > 0 ==> 0 <= h.sourcePos && h.sourcePos < len(h.names))

// The active source, the per-source map of line histories, the key of the line being edited in it
// (-1 = the new line, else the index of the history entry being edited) and its undo history.
//@ spec hcur(h *Sources) Source = ite(len(h.list) == 0, nil, mget(h.list, h.names[h.sourcePos]))
//@ spec hkey(h *Sources) int = ite(h.hpos > -1 && hcur(h) != nil, len(entries(hcur(h))) - h.hpos, -1)
//@ spec hmap(h *Sources) map[int]*lineHistory = mget(h.lines, h.names[h.sourcePos])
//@ spec curlh(h *Sources) *lineHistory = mget(hmap(h), hkey(h))

//@ func (*Sources).Current
//@   props C07 C08 C09 C01
//@   terminates
//@   requires hvalid(h)
//@   pure
//@   ensures result == hcur(h)

//@ func (*Sources).getHistoryLineChanges
//@   props C07 C09 C01
//@   terminates
//@   requires hvalid(h)
//@   assigns mapof(h.lines)
//@   ensures result != nil
//@   ensures hcur(h) != nil ==> result == hmap(h)
//@   ensures hcur(h) != nil && old(hmap(h)) != nil ==> result == old(hmap(h))
//@   ensures hcur(h) != nil && old(hmap(h)) == nil ==> fresh(result) && mapempty(result)
//@   ensures hcur(h) == nil ==> fresh(result) && mapempty(result)

//@ func (*Sources).getLineHistory
//@   props C07 C09 C01
//@   terminates
//@   requires hvalid(h)
//@   assigns mapof(h.lines), anymapof("map[int]*lineHistory")
//@   ensures result != nil
//@   ensures hcur(h) != nil ==> result == curlh(h)
//@   ensures hcur(h) != nil && old(curlh(h)) != nil ==> result == old(curlh(h))
//@   ensures (hcur(h) != nil && result == old(curlh(h))) || (fresh(result) && result.pos == 0 && len(result.items) == 0)

//@ func (*Sources).Reset
//@   props C07 C16 C01
//@   terminates
//@   requires hvalid(h)
//@   assigns h.skip, h.undoing, mapof(h.lines), anymapof("map[int]*lineHistory"), anyof("lineHistory", "pos")
//@   ensures !h.skip && !h.undoing
//@   ensures hcur(h) != nil && old(curlh(h)) != nil ==> curlh(h) == old(curlh(h))
//@   ensures allobj(x, "*lineHistory", x.pos == old(x.pos) || (!old(h.undoing) && x.pos == 0 && (old(curlh(h)) == nil || x == old(curlh(h)))))
//@   ensures !old(h.undoing) && hcur(h) != nil && old(curlh(h)) != nil ==> curlh(h).pos == 0

//@ func (*Sources).SkipSave
//@   props C07 C16 C06 C01
//@   terminates
//@   requires h != nil
//@   assigns h.skip
//@   ensures h.skip

// hnorm: there is an active source and the line being edited already has its undo history object
//@ pred hnorm(h *Sources) = hcur(h) != nil && curlh(h) != nil
//@ spec htext(h *Sources) string = str(*h.line)

//@ func (*Sources).Save
//@   props C07 C16 C01
//@   terminates
//@   requires hvalid(h) && allok() && (h.undoing ==> h.skip)
//@   assigns h.skip, h.undoing, h.cursor.pos, h.cursor.mark, mapof(h.lines), anymapof("map[int]*lineHistory"), anyof("lineHistory", "pos"), anyof("lineHistory", "items")
//@   ensures [ri] allok()
//@   ensures [cursor] old(core.cok(h.cursor)) ==> h.cursor.pos == old(h.cursor.pos) && h.cursor.mark == old(h.cursor.mark)
//@   ensures [cursor] h.cursor.pos == old(h.cursor.pos) || core.cclamp(h.cursor)
//@   ensures !h.skip && !h.undoing
//@   ensures @C07 [same-history] old(hnorm(h)) ==> curlh(h) == old(curlh(h))
//@   ensures @C07 [skip-noop] old(h.skip) ==> allobj(x, "*lineHistory", x.items == old(x.items))
//@   ensures @C07 [others-untouched] allobj(x, "*lineHistory", x == old(curlh(h)) || !old(allocated(x)) || x.items == old(x.items))
//@   ensures @C07 [same-text] old(hnorm(h)) && !old(h.skip) && old(len(curlh(h).items)) > 0 && old(curlh(h).items[len(curlh(h).items) - 1].line) == htext(h) ==> len(curlh(h).items) == old(len(curlh(h).items)) && curlh(h).items[:len(curlh(h).items) - 1] == old(curlh(h).items)[:len(curlh(h).items) - 1] && curlh(h).items[len(curlh(h).items) - 1].line == htext(h)
//@   ensures @C07 [append] old(hnorm(h)) && !old(h.skip) && !(old(len(curlh(h).items)) > 0 && old(curlh(h).items[len(curlh(h).items) - 1].line) == htext(h)) ==> len(curlh(h).items) == old(len(curlh(h).items)) - min(old(curlh(h).pos), old(len(curlh(h).items))) + 1 && curlh(h).items[:len(curlh(h).items) - 1] == old(curlh(h).items)[:len(curlh(h).items) - 1] && curlh(h).items[len(curlh(h).items) - 1].line == htext(h)
//@   ensures @C07 [pos-reset] old(hnorm(h)) && !old(h.skip) ==> curlh(h).pos == 0
//@   ensures @C07 [initial-kept] old(hnorm(h)) && old(len(curlh(h).items)) > 0 ==> len(curlh(h).items) > 0 && curlh(h).items[0].line == old(curlh(h).items[0].line)

//@ func (*Sources).Undo
//@   props C07 C01
//@   terminates
//@   requires hvalid(h) && allok()
//@   assigns h.skip, h.undoing, *h.line, h.cursor.pos, h.cursor.mark, mapof(h.lines), anymapof("map[int]*lineHistory"), anyof("lineHistory", "pos")
//@   ensures [ri] allok()
//@   ensures h.skip && h.undoing
//@   ensures @C07 [same-history] old(hnorm(h)) ==> curlh(h) == old(curlh(h))
//@   ensures @C07 [older] old(hnorm(h)) ==> curlh(h).pos >= old(curlh(h).pos)
//@   ensures @C07 [shown-before] old(hnorm(h)) ==> *h.line == old(*h.line) || (curlh(h).pos >= 1 && *h.line == runes(curlh(h).items[len(curlh(h).items) - curlh(h).pos].line))
//@   ensures @C07 [redo-can-restore] old(hnorm(h)) && *h.line != old(*h.line) ==> curlh(h).pos >= 2 && curlh(h).items[len(curlh(h).items) - curlh(h).pos + 1].line == old(htext(h))
//@   ensures @C07 [progress] old(hnorm(h)) && old(len(curlh(h).items)) > 0 ==> curlh(h).pos > old(curlh(h).pos) || curlh(h).pos == len(curlh(h).items)
//@   loop 1 invariant lhok(line) && line != nil && allok() && line.pos >= 0 && *h.line == old(*h.line) && (old(hnorm(h)) ==> line == old(curlh(h)) && curlh(h) == line && line.pos >= old(curlh(h).pos))
//@   loop 1 invariant old(hnorm(h)) ==> all(k, max(len(line.items) - line.pos, 0), len(line.items) - old(curlh(h).pos), line.items[k].line == old(htext(h)))
//@   loop 1 decreases len(line.items) - line.pos

//@ func (*Sources).Redo
//@   props C07 C01
//@   terminates
//@   requires hvalid(h) && allok()
//@   assigns h.skip, h.undoing, *h.line, h.cursor.pos, h.cursor.mark, mapof(h.lines), anymapof("map[int]*lineHistory"), anyof("lineHistory", "pos")
//@   ensures [ri] allok()
//@   ensures h.skip && h.undoing
//@   ensures @C07 [same-history] old(hnorm(h)) ==> curlh(h) == old(curlh(h))
//@   ensures @C07 [reverses-undo] old(hnorm(h)) && old(curlh(h).pos) >= 2 ==> curlh(h).pos == old(curlh(h).pos) - 1 && *h.line == runes(curlh(h).items[len(curlh(h).items) - old(curlh(h).pos) + 1].line)
//@   ensures @C07 [no-redo-branch] old(hnorm(h)) && old(curlh(h).pos) <= 1 ==> *h.line == old(*h.line)

//@ func (*Sources).Revert
//@   props C07 C01
//@   terminates
//@   requires hvalid(h) && allok() && !h.undoing
//@   assigns h.skip, h.undoing, *h.line, h.cursor.pos, h.cursor.mark, mapof(h.lines), anymapof("map[int]*lineHistory"), anyof("lineHistory", "pos"), anyof("lineHistory", "items")
//@   ensures [ri] allok()
