//go:build verif

// Contracts for package inputrc (comment-only; checked by /verif/bin/rlverify).

package inputrc

// ---------------------------------------------------------------------------------------
// scanning helpers (C12: no panic, termination)

//@ func grab
//@   props C12 C01 C13 C19
//@   terminates
//@   requires i < end ==> 0 <= i && i < len(r)
//@   pure
//@   ensures result == ite(i < end, r[i], 0)

//@ func findNonSpace
//@   props C12 C01 C13
//@   terminates
//@   requires 0 <= i && end <= len(r)
//@   pure
//@   ensures result >= i && (i <= end ==> result <= end) && (i >= end ==> result == i)
//@   ensures result < end ==> !uspace(r[result])
//@   ensures i < end && !uspace(r[i]) ==> result == i
//@   loop 1 invariant i >= i$0 && (i$0 <= end ==> i <= end) && (i$0 >= end ==> i == i$0)
//@   loop 1 invariant i$0 < end && !uspace(r[i$0]) ==> i == i$0
//@   loop 1 decreases end - i

//@ func findEnd
//@   props C12 C01 C13
//@   terminates
//@   requires 0 <= i && end <= len(r)
//@   pure
//@   ensures result >= i && (i <= end ==> result <= end) && (i >= end ==> result == i)
//@   loop 1 invariant i >= i$0 && (i$0 <= end ==> i <= end) && (i$0 >= end ==> i == i$0)
//@   loop 1 decreases end - i

//@ func findStringEnd
//@   props C12 C01 C13
//@   terminates
//@   requires 0 <= pos && pos < len(seq) && end <= len(seq)
//@   pure
//@   ensures result0 > pos
//@   ensures result1 ==> result0 <= end && result0 >= pos + 2
//@   loop 1 invariant pos > pos$0
//@   loop 1 decreases end - pos

//@ func octDigit
//@   props C12 C19
//@   terminates
//@   pure
//@   ensures result <==> ('0' <= c && c <= '7')

//@ func hexDigit
//@   props C12 C19
//@   terminates
//@   pure
//@   ensures result <==> (('0' <= c && c <= '9') || ('A' <= c && c <= 'F') || ('a' <= c && c <= 'f'))

//@ func hexVal
//@   props C12 C19
//@   terminates
//@   pure
//@   ensures 'a' <= char && char <= 'f' ==> result == char - 'a' + 10
//@   ensures 'A' <= char && char <= 'F' ==> result == char - 'A' + 10
//@   ensures '0' <= char && char <= '9' ==> result == char - '0'

//@ func unescapeRunes
//@   props C12 C01
//@   terminates
//@   requires 0 <= i && end <= len(r)
//@   pure
//@   loop 1 invariant i >= i$0
//@   loop 1 decreases end - i

//@ func decodeKey
//@   props C12 C01
//@   terminates
//@   requires 0 <= pos && pos <= end && end <= len(seq)
//@   pure
//@   ensures result2 == nil ==> result1 >= pos && result1 <= end
//@   loop 1 invariant pos >= pos$0 && (pos$0 <= end ==> pos <= end) && (pos$0 >= end ==> pos == pos$0)
//@   loop 1 decreases end - pos
//@   loop 2 invariant idx == -1 || (0 <= idx && idx + 1 <= len(val))
//@   loop 2 decreases len(val)

//@ func Encontrol
//@   props C12 C19
//@   terminates
//@   pure

//@ func Enmeta
//@   props C12 C19
//@   terminates
//@   pure

//@ func Unescape
//@   props C12 C19
//@   terminates
//@   pure

// ---------------------------------------------------------------------------------------
// Handler interface (application code: assumed total; observable effect = ghost call counters)

//@ ghost nbind(h Handler) int
//@ ghost nset(h Handler) int
//@ ghost ndo(h Handler) int
//@ ghost lastkeymap(h Handler) string
//@ ghost lastseq(h Handler) string
//@ ghost lastaction(h Handler) string
//@ ghost lastmacro(h Handler) bool
//@ ghost lastsetname(h Handler) string

//@ fntype (Handler).Bind
//@   assumed application code: total; the only module-visible effect is the ghost record of the call
//@   assigns nbind(self), lastkeymap(self), lastseq(self), lastaction(self), lastmacro(self)
//@   ensures nbind(self) == old(nbind(self)) + 1
//@   ensures lastkeymap(self) == keymap && lastseq(self) == sequence && lastaction(self) == action && lastmacro(self) == macro

//@ fntype (Handler).Set
//@   assumed application code: total
//@   assigns nset(self), lastsetname(self)
//@   ensures nset(self) == old(nset(self)) + 1 && lastsetname(self) == name

//@ fntype (Handler).Get
//@   assumed application code: total; for the library's own Config the result is nil or a bool, string or int (DefaultVars and doSet only store those)
//@   pure
//@   ensures result == nil || typeis(result, "bool") || typeis(result, "string") || typeis(result, "int")

//@ fntype (Handler).Do
//@   assumed application code: total
//@   assigns ndo(self)
//@   ensures ndo(self) == old(ndo(self)) + 1

//@ fntype (Handler).ReadFile
//@   assumed application code: total
//@   pure

//@ fntype Option
//@   assumed option closures of this package only assign fields of the parser they are given
//@   requires p0 != nil
//@   assigns p0.all

// ---------------------------------------------------------------------------------------
// Parser

// pconds: the condition stack is never empty and "inner active ==> outer active" (C13 invariant J').
//@ pred pconds(p *Parser) = p != nil && len(p.conds) >= 1 && all(k, 0, len(p.conds) - 1, p.conds[k + 1] ==> p.conds[k])
//@ pred ptop(p *Parser) = p.conds[len(p.conds) - 1]

//@ func New
//@   props C12
//@   terminates
//@   requires all(k, 0, len(opts), opts[k] != nil)
//@   assigns nothing
//@   ensures fresh(result)

//@ func Parse
//@   props C12
//@   terminates
//@   recursion_assumed $include nesting is bounded by maxIncludeDepth (do/post:include-capped is proved); that the nested parser's depth is p.depth+1 is read off New/withDepth, not proved
//@   requires h != nil && all(k, 0, len(opts), opts[k] != nil)
//@   assigns nbind(h), lastkeymap(h), lastseq(h), lastaction(h), lastmacro(h), nset(h), lastsetname(h), ndo(h)

//@ func WithName
//@   trusted returns a non-nil closure
//@   assigns nothing
//@   ensures result != nil
//@ func WithApp
//@   trusted returns a non-nil closure
//@   assigns nothing
//@   ensures result != nil
//@ func WithTerm
//@   trusted returns a non-nil closure
//@   assigns nothing
//@   ensures result != nil
//@ func WithMode
//@   trusted returns a non-nil closure
//@   assigns nothing
//@   ensures result != nil
//@ func withDepth
//@   trusted returns a non-nil closure
//@   assigns nothing
//@   ensures result != nil

//@ func (*Parser).readSymbols
//@   props C12 C01
//@   terminates
//@   requires p != nil && 0 <= pos && pos <= end && end == len(seq)
//@   pure

//@ func (*Parser).readNext
//@   props C12 C01
//@   terminates
//@   requires p != nil && 0 <= pos && pos < end && end == len(seq) && !uspace(seq[pos])
//@   pure
//@   loop 1 invariant 0 <= pos && pos <= end
//@   loop 1 decreases end - pos

//@ func (*Parser).doBind
//@   props C12 C13
//@   terminates
//@   requires pconds(p) && h != nil
//@   assigns nbind(h), lastkeymap(h), lastseq(h), lastaction(h), lastmacro(h)
//@   ensures [bind-iff-active] ptop(p) ==> nbind(h) == old(nbind(h)) + 1 && lastkeymap(h) == p.keymap && lastseq(h) == sequence && lastaction(h) == action && lastmacro(h) == macro
//@   ensures [bind-iff-active] !ptop(p) ==> nbind(h) == old(nbind(h))

//@ func (*Parser).doSet
//@   props C12 C13
//@   terminates
//@   requires pconds(p) && handler != nil
//@   assigns p.keymap, nset(handler), lastsetname(handler)
//@   ensures [set-inactive] !ptop(p) ==> nset(handler) == old(nset(handler)) && p.keymap == old(p.keymap)
//@   ensures [set-keymap] ptop(p) && name == "keymap" && !p.strict ==> p.keymap == value && nset(handler) == old(nset(handler))
//@   ensures [set-keymap] name != "keymap" ==> p.keymap == old(p.keymap)
//@   ensures [set-var] ptop(p) && name != "keymap" && name != "editing-mode" && result == nil ==> nset(handler) == old(nset(handler)) + 1 && lastsetname(handler) == name

//@ func (*Parser).do
//@   props C12 C13
//@   terminates
//@   recursion_assumed $include nesting is bounded by maxIncludeDepth (post:include-capped is proved); that the nested parser's depth is p.depth+1 is read off New/withDepth, not proved
//@   requires pconds(p) && handler != nil
//@   assigns p.conds, nbind(handler), lastkeymap(handler), lastseq(handler), lastaction(handler), lastmacro(handler), nset(handler), lastsetname(handler), ndo(handler)
//@   ensures [conds-nonempty] p != nil && len(p.conds) >= 1
//@   ensures @C13 [conds-inv] pconds(p)
//@   ensures @C13 [if-push] keyword == "$if" ==> len(p.conds) == old(len(p.conds)) + 1 && p.conds[:old(len(p.conds))] == old(p.conds) && (ptop(p) ==> old(ptop(p)))
//@   ensures @C13 [else-flip] keyword == "$else" && result == nil ==> len(p.conds) == old(len(p.conds)) && len(p.conds) >= 2 && p.conds[:len(p.conds) - 1] == old(p.conds)[:len(p.conds) - 1] && (ptop(p) <==> (!old(ptop(p)) && p.conds[len(p.conds) - 2]))
//@   ensures @C13 [endif-pop] keyword == "$endif" && result == nil ==> len(p.conds) == old(len(p.conds)) - 1 && p.conds == old(p.conds)[:len(p.conds)]
//@   ensures @C13 [error-noop] (keyword == "$else" || keyword == "$endif") && result != nil ==> p.conds == old(p.conds)
//@   ensures @C13 [other-noop] keyword != "$if" && keyword != "$else" && keyword != "$endif" ==> p.conds == old(p.conds)
//@   ensures @C13 [inactive-do] keyword != "$if" && keyword != "$else" && keyword != "$endif" && keyword != "$include" && !old(ptop(p)) ==> ndo(handler) == old(ndo(handler))
//@   ensures @C13 [inactive-include] keyword == "$include" && !old(ptop(p)) ==> nbind(handler) == old(nbind(handler)) && nset(handler) == old(nset(handler)) && ndo(handler) == old(ndo(handler))
//@   ensures @C12 [include-capped] keyword == "$include" && old(ptop(p)) && p.depth >= maxIncludeDepth ==> result != nil

//@ func (*Parser).next
//@   props C12 C13
//@   terminates
//@   recursion_assumed see (*Parser).do
//@   requires pconds(p) && handler != nil && 0 <= pos && pos < end && end == len(seq) && !uspace(seq[pos])
//@   assigns p.conds, p.keymap, nbind(handler), lastkeymap(handler), lastseq(handler), lastaction(handler), lastmacro(handler), nset(handler), lastsetname(handler), ndo(handler)
//@   ensures [conds-inv] pconds(p)

//@ func (*Parser).Parse
//@   props C12
//@   terminates
//@   recursion_assumed see (*Parser).do
//@   requires p != nil && handler != nil
//@   assigns p.keymap, p.line, p.conds, p.errs, nbind(handler), lastkeymap(handler), lastseq(handler), lastaction(handler), lastmacro(handler), nset(handler), lastsetname(handler), ndo(handler)
//@   loop 1 invariant pconds(p) && scanner != nil && scanleft(scanner) >= 0
//@   loop 1 decreases scanleft(scanner)

// ---------------------------------------------------------------------------------------
// Config accessors

//@ func (*Config).GetString
//@   props C12 C01 C17
//@   terminates
//@   requires cfg != nil
//@   pure

//@ func (*Config).GetBool
//@   props C12 C01 C08
//@   terminates
//@   requires cfg != nil
//@   pure

//@ func (*Config).GetInt
//@   props C12 C01
//@   terminates
//@   requires cfg != nil
//@   pure
