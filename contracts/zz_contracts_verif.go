//go:build verif

// Contracts for package readline: the command layer (comment-only; checked by /verif/bin/rlverify).

package readline

// The editor state a command runs on: one line, its cursor and selection, the registers, the history.
//@ pred shellok(rl *Shell) = rl != nil && rl.line != nil && rl.cursor != nil && rl.selection != nil && rl.Buffers != nil && rl.History != nil && rl.Iterations != nil && rl.cursor.line == rl.line && rl.selection.line == rl.line && rl.selection.cursor == rl.cursor && editor.bufok(rl.Buffers) && history.hvalid(rl.History) && rl.History.line == rl.line && rl.History.cursor == rl.cursor && clean(*rl.line)
// not in a vi visual mode and no surround selections (the emacs kill commands are stated under this hypothesis)
//@ pred plainsel(rl *Shell) = !rl.selection.visual && !rl.selection.visualLine && len(rl.selection.surrounds) == 0
//@ spec killed(rl *Shell) []rune = editor.killbuf(rl.Buffers)

// ---------------------------------------------------------------------------------------
// C16: kill commands.  P1: what is stored in the kill buffer is exactly what was removed, the rest of the
// line is untouched.  P2: the cursor ends where the removed range collapsed to.

// cmdok: what holds whenever a command starts (established by the main loop; A-LOOP)
//@ pred cmdok(rl *Shell) = shellok(rl) && history.allok() && (rl.History.undoing ==> rl.History.skip)

// killspec(rl, b): the line lost exactly the d = n0 - len runes starting at b, they are the newest kill
// (or nothing was removed and the kill buffer is unchanged), and the cursor sits at b.
// Stated without existentials: the end of the removed range is determined by the lengths.

// killyank(rl, n0): the line lost exactly d = n0 - len runes, they start at the (effective) cursor position b,
// they are the newest kill (or nothing was removed and the kill buffer is unchanged).  This is the statement
// "yanking at the cursor gives back exactly what the kill took" without existentials: with the lemma
// kill_yank_restores it implies that an immediate yank restores the buffer.
//@ spec kb(rl *Shell) int = core.clampi(rl.cursor.pos, len(*rl.line))
//@ pred killyank(rl *Shell, n0 int) = len(*rl.line) <= n0 && kb(rl) + (n0 - len(*rl.line)) <= n0 && *rl.line == old(*rl.line)[:kb(rl)] + old(*rl.line)[kb(rl) + (n0 - len(*rl.line)):] && (n0 > len(*rl.line) ==> killed(rl) == old(*rl.line)[kb(rl):kb(rl) + (n0 - len(*rl.line))]) && (n0 == len(*rl.line) ==> killed(rl) == old(killed(rl)))

//@ lemma kill_yank_restores(l []rune, b int, d int): 0 <= b && 0 <= d && b + d <= len(l) ==> (l[:b] + l[b + d:])[:b] + l[b:b + d] + (l[:b] + l[b + d:])[b:] == l
//@   props C16

//@ func (*Shell).killLine
//@   props C16 C01
//@   terminates
//@   requires cmdok(rl) && plainsel(rl) && !rl.Buffers.selected
//@   let n0 = len(*rl.line)
//@   ensures [P1P2] killyank(rl, n0)
//@   ensures [at-point] n0 > 0 ==> rl.cursor.pos == old(kb(rl))

//@ func (*Shell).backwardKillLine
//@   props C16 C01
//@   terminates
//@   requires cmdok(rl) && plainsel(rl) && !rl.Buffers.selected
//@   let n0 = len(*rl.line)
//@   ensures [P1P2] killyank(rl, n0)
//@   ensures [before-point] n0 > 0 ==> kb(rl) + (n0 - len(*rl.line)) == old(kb(rl))

//@ func (*Shell).killWholeLine
//@   props C16 C01
//@   terminates
//@   requires cmdok(rl) && !rl.Buffers.selected
//@   let n0 = len(*rl.line)
//@   ensures [P1P2] killyank(rl, n0)
//@   ensures len(*rl.line) == 0

//@ func (*Shell).killBuffer
//@   props C16 C01
//@   terminates
//@   requires cmdok(rl) && !rl.Buffers.selected
//@   let n0 = len(*rl.line)
//@   ensures [P1P2] killyank(rl, n0)
//@   ensures len(*rl.line) == 0

//@ func (*Shell).killRegion
//@   props C16 C01
//@   terminates
//@   requires cmdok(rl) && plainsel(rl) && !rl.Buffers.selected
//@   let n0 = len(*rl.line)
//@   ensures [P1] len(*rl.line) <= n0 && *rl.line == old(*rl.line)[:old(core.selB(rl.selection))] + old(*rl.line)[old(core.selE(rl.selection)):] || (*rl.line == old(*rl.line) && killed(rl) == old(killed(rl)))
//@   ensures [P1P2] killyank(rl, n0)

//@ func (*Shell).yank
//@   props C16 C01
//@   terminates
//@   requires cmdok(rl) && clean(killed(rl))
//@   ensures [yank-once] old(len(rl.Iterations.times)) == 0 && !old(rl.Buffers.waiting) && !old(rl.Buffers.selected) && old(clean(killed(rl))) ==> *rl.line == old(*rl.line)[:old(kb(rl))] + core.stripz(old(killed(rl))) + old(*rl.line)[old(kb(rl)):]
//@   loop 1 invariant cmdok(rl) && vii != 0 && (old(len(rl.Iterations.times)) == 0 ==> vii == 1) && buf == old(killed(rl))
//@   loop 1 invariant i >= 1 && i <= max(vii, 0) + 1 && (i == 1 ==> *rl.line == old(*rl.line) && rl.cursor.pos == old(rl.cursor.pos))
//@   loop 1 invariant i == 2 && old(clean(killed(rl))) ==> *rl.line == old(*rl.line)[:old(kb(rl))] + core.stripz(old(killed(rl))) + old(*rl.line)[old(kb(rl)):]
//@   loop 1 decreases vii - i + 1

//@ func (*Shell).viDeleteChar
//@   props C16 C01
//@   terminates
//@   requires cmdok(rl) && !rl.Buffers.selected
//@   let n0 = len(*rl.line)
//@   ensures [P1P2-count1] old(len(rl.Iterations.times)) == 0 ==> killyank(rl, n0)
//@   ensures [one-rune] old(len(rl.Iterations.times)) == 0 && n0 > 0 && old(kb(rl)) < n0 ==> len(*rl.line) == n0 - 1 && rl.cursor.pos == old(kb(rl))
//@   loop 1 invariant cmdok(rl) && !rl.Buffers.selected && vii != 0 && (old(len(rl.Iterations.times)) == 0 ==> vii == 1) && i >= 1 && i <= max(vii, 0) + 1 && killed(rl) == old(killed(rl))
//@   loop 1 invariant i == 1 ==> *rl.line == old(*rl.line) && rl.cursor.pos == old(kb(rl)) && len(cutBuf) == 0
//@   loop 1 invariant i == 2 && vii == 1 ==> rl.cursor.pos == old(kb(rl)) && *rl.line == old(*rl.line)[:old(kb(rl))] + old(*rl.line)[old(kb(rl)) + 1:] && cutBuf == old(*rl.line)[old(kb(rl)):old(kb(rl)) + 1]
//@   loop 1 decreases vii - i + 1

//@ func (*Shell).viPutBefore
//@   props C16 C01
//@   terminates
//@   requires cmdok(rl) && clean(killed(rl))
//@   ensures [put-once] old(len(rl.Iterations.times)) == 0 && !old(rl.Buffers.waiting) && !old(rl.Buffers.selected) && old(len(killed(rl))) > 0 && old(killed(rl))[old(len(killed(rl))) - 1] != '\n' ==> *rl.line == old(*rl.line)[:old(kb(rl))] + core.stripz(old(killed(rl))) + old(*rl.line)[old(kb(rl)):]
//@   loop 1 invariant cmdok(rl) && vii != 0 && (old(len(rl.Iterations.times)) == 0 ==> vii == 1) && i >= 1 && i <= max(vii, 0) + 1 && 0 <= pos && clean(buffer)
//@   loop 1 invariant old(len(killed(rl))) > 0 && old(killed(rl))[old(len(killed(rl))) - 1] != '\n' && !old(rl.Buffers.waiting) && !old(rl.Buffers.selected) ==> buffer == old(killed(rl)) && pos == old(kb(rl)) && (i == 1 ==> *rl.line == old(*rl.line)) && (i == 2 ==> *rl.line == old(*rl.line)[:old(kb(rl))] + core.stripz(old(killed(rl))) + old(*rl.line)[old(kb(rl)):])
//@   loop 1 decreases vii - i + 1
