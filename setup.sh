#!/bin/sh
# Build the verifier from files on disk only (offline).
set -e
export GOFLAGS=-mod=mod GOPROXY=off
cd /verif/engine
cp /repo/go.sum ./go.sum.repo 2>/dev/null || true
go build -o /verif/bin/rlverify .
# the contract files in /repo (build tag verif, comment-only) must equal the mirror kept here
cd /verif/contracts
status=0
for f in $(find . -name zz_contracts_verif.go); do
  if ! cmp -s "$f" "/repo/$f"; then echo "note: /repo/$f differs from the mirror /verif/contracts/$f (the check will use the mirror)"; fi
done
exit $status
