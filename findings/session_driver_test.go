package readline

// A tty-less session driver: feeds bytes to the key stack and runs the body of Readline's loop (without
// Display.Refresh, which queries the terminal).  Used for demonstrations and replays of multi-key inputs.

import (
	"io"
	"testing"

	"github.com/reeflective/readline/internal/completion"
	"github.com/reeflective/readline/internal/core"
	"github.com/reeflective/readline/internal/keymap"
	"github.com/reeflective/readline/internal/macro"
)

type session struct {
	rl       *Shell
	accepted bool
	line     string
	err      error
}

// chunkReader delivers each string as the result of one read(); io.EOF afterwards.
type chunkReader struct{ chunks []string }

func (c *chunkReader) Read(p []byte) (int, error) {
	if len(c.chunks) == 0 {
		return 0, io.EOF
	}
	n := copy(p, c.chunks[0])
	c.chunks = c.chunks[1:]
	return n, nil
}
func (c *chunkReader) Close() error { return nil }

func newSession(vi bool) *session {
	rl := NewShell()
	if vi {
		rl.Config.Set("editing-mode", "vi")
		rl.Keymap.SetMain(keymap.ViInsert)
	}
	rl.init()
	return &session{rl: rl}
}

// keys delivers each string as one read() chunk and runs the body of Readline's loop until the input is
// exhausted or the line is accepted.
func (s *session) keys(chunks ...string) {
	rl := s.rl
	rd := &chunkReader{chunks: chunks}
	old := core.Stdin
	core.Stdin = rd
	defer func() { core.Stdin = old }()
	for steps := 0; steps < 10000; steps++ {
		macro.RecordKeys(rl.Macros)
		core.FlushUsed(rl.Keys)
		before := len(rd.chunks)
		core.WaitAvailableKeys(rl.Keys, rl.Config)
		if _, empty := core.PeekKey(rl.Keys); empty && len(rd.chunks) == 0 {
			return
		}
		bind, command, prefixed := keymap.MatchLocal(rl.Keymap)
		if prefixed {
			if before == 0 && len(rd.chunks) == 0 {
				return
			}
			continue
		}
		accepted, line, err := rl.run(false, bind, command)
		if accepted {
			s.accepted, s.line, s.err = true, line, err
			return
		} else if command != nil {
			continue
		}
		completion.UpdateInserted(rl.completer)
		bind, command, prefixed = keymap.MatchMain(rl.Keymap)
		if prefixed {
			if before == 0 && len(rd.chunks) == 0 {
				return
			}
			continue
		}
		accepted, line, err = rl.run(true, bind, command)
		if accepted {
			s.accepted, s.line, s.err = true, line, err
			return
		}
		rl.handleUndefined(bind, command)
	}
}

func (s *session) buffer() string { return string(*s.rl.line) }

func TestVerifSessionSanity(t *testing.T) {
	cases := []struct {
		vi   bool
		keys []string
		want string
	}{
		{false, []string{"hello", "\x01", "X"}, "Xhello"},
		{false, []string{"hello", "\x1b[D", "\x1b[D", "Y"}, "helYlo"},
		{false, []string{"foo bar", "\x1bb", "Z"}, "foo Zbar"},
		{false, []string{"foo bar", "\x1b", "b", "Z"}, "foo Zbar"},
		{false, []string{"abc", "\x0b", "\x01", "\x0b", "\x19"}, "abc"},
		{true, []string{"abc", "\x1b", "x"}, "ab"},
		{true, []string{"abc", "\x1bx"}, "ab"},
		{true, []string{"abc def", "\x1b", "0", "dw"}, "def"},
		{true, []string{"abc", "\x1b", "0", "i", "Z", "\x1b"}, "Zabc"},
		{false, []string{"\x18(", "abc", "\x18)", "\x18e"}, "abcabc"},
		{false, []string{"\x18(", "ab", "\x01", "X", "\x18)", "\x05", "\x18e"}, "XXabab"},
		{false, []string{"\x18(abc\x18)\x18e"}, "abcabc"},
	}
	for i, c := range cases {
		s := newSession(c.vi)
		s.keys(c.keys...)
		if got := s.buffer(); got != c.want {
			t.Errorf("case %d %q (vi=%v): buffer %q, want %q", i, c.keys, c.vi, got, c.want)
		}
	}
}
