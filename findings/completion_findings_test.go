package completion

// Demonstrations of defects found by failed obligations (run in-package via -overlay).

import (
	"testing"
	"time"

	"github.com/reeflective/readline/inputrc"
	"github.com/reeflective/readline/internal/core"
	"github.com/reeflective/readline/internal/keymap"
	"github.com/reeflective/readline/internal/ui"
)

func newTestEngine(line string, prefix string, value string) (*Engine, *core.Line) {
	keys := new(core.Keys)
	l := new(core.Line)
	cur := core.NewCursor(l)
	sel := core.NewSelection(l, cur)
	km, cfg := keymap.NewEngine(keys, new(core.Iterations))
	e := NewEngine(new(ui.Hint), km, cfg)
	Init(e, keys, l, cur, sel, nil)
	l.Set([]rune(line)...)
	cur.Set(l.Len())
	e.prefix = prefix
	e.groups = []*group{{rows: [][]Candidate{{{Value: value, Display: value}}}, isCurrent: true, posX: -1, posY: -1, maxY: 1, maxX: 1, columnsWidth: []int{len(value)}, preserveEscapes: true}}
	_ = inputrc.Newline
	return e, l
}

// C14: insertCandidate/post:word-only — the word is cut by len(prefix) BYTES on a rune buffer.
func TestVerifFindingCompletionBytePrefix(t *testing.T) {
	e, _ := newTestEngine("x éf", "éf", "éfc00")
	e.insertCandidate()
	if got, want := string(*e.compLine), "x éfc00"; got != want {
		t.Errorf("completed line: got %q, want %q (text before the word changed)", got, want)
	}
}

// C14/C01: acceptCandidate/pre@prepareSuffix — a unique candidate shorter than the prefix slices comp[prefix:] out of range.
func TestVerifFindingAcceptShortCandidate(t *testing.T) {
	defer func() {
		if r := recover(); r != nil {
			t.Errorf("acceptCandidate panicked: %v", r)
		}
	}()
	e, _ := newTestEngine("ls abc", "abc", "ab")
	e.acceptCandidate()
}

// C15/C01: (*group).wrapExcessAliases/dec:L3 — when the first column of an aliased group is wider than half the
// terminal, maxColumns is 0 and the wrapping loop appends empty rows forever.
func TestVerifFindingWrapExcessAliasesHang(t *testing.T) {
	done := make(chan bool)
	go func() {
		g := &group{termWidth: 20, columnsWidth: []int{15, 15}, aliased: true}
		grid := [][]Candidate{{{Value: "aaaaaaaaaaaaaa", Description: "d"}, {Value: "bbbbbbbbbbbbbb", Description: "d"}}}
		defer func() { recover(); done <- true }()
		g.wrapExcessAliasesBounded(grid)
		done <- true
	}()
	select {
	case <-done:
	case <-time.After(2 * time.Second):
		t.Errorf("wrapExcessAliases does not terminate when the first column is wider than half the terminal")
	}
}

// wrapExcessAliasesBounded runs the real function but panics out of it once the row list has grown absurdly,
// so that the demonstration does not exhaust memory.
func (g *group) wrapExcessAliasesBounded(grid [][]Candidate) {
	stop := make(chan bool)
	go func() {
		select {
		case <-stop:
		case <-time.After(1500 * time.Millisecond):
			// make the spinning goroutine fail fast: shrink the slice it slices from
			g.columnsWidth = nil
		}
	}()
	g.wrapExcessAliases(grid, nil)
	close(stop)
}
