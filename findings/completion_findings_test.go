package completion

// Demonstrations of defects found by failed obligations (run in-package via -overlay).

import (
	"testing"

	"github.com/reeflective/readline/inputrc"
	"github.com/reeflective/readline/internal/core"
	"github.com/reeflective/readline/internal/keymap"
	"github.com/reeflective/readline/internal/ui"
)

func newTestEngine(line string, prefix string, value string) (*Engine, *core.Line) {
	keys := new(core.Keys)
	l := new(core.Line)
	cur := core.NewCursor(l)
	sel := core.NewSelection(l, cur)
	km, cfg := keymap.NewEngine(keys, new(core.Iterations))
	e := NewEngine(new(ui.Hint), km, cfg)
	Init(e, keys, l, cur, sel, nil)
	l.Set([]rune(line)...)
	cur.Set(l.Len())
	e.prefix = prefix
	e.groups = []*group{{rows: [][]Candidate{{{Value: value, Display: value}}}, isCurrent: true, posX: -1, posY: -1, maxY: 1, maxX: 1, columnsWidth: []int{len(value)}, preserveEscapes: true}}
	_ = inputrc.Newline
	return e, l
}

// C14: insertCandidate/post:word-only — the word is cut by len(prefix) BYTES on a rune buffer.
func TestVerifFindingCompletionBytePrefix(t *testing.T) {
	e, _ := newTestEngine("x éf", "éf", "éfc00")
	e.insertCandidate()
	if got, want := string(*e.compLine), "x éfc00"; got != want {
		t.Errorf("completed line: got %q, want %q (text before the word changed)", got, want)
	}
}

// C14/C01: acceptCandidate/pre@prepareSuffix — a unique candidate shorter than the prefix slices comp[prefix:] out of range.
func TestVerifFindingAcceptShortCandidate(t *testing.T) {
	defer func() {
		if r := recover(); r != nil {
			t.Errorf("acceptCandidate panicked: %v", r)
		}
	}()
	e, _ := newTestEngine("ls abc", "abc", "ab")
	e.acceptCandidate()
}
