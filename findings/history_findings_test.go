package history

// Demonstrations of defects found by failed obligations (run in-package via -overlay).

import (
	"testing"

	"github.com/reeflective/readline/inputrc"
	"github.com/reeflective/readline/internal/core"
	"github.com/reeflective/readline/internal/ui"
)

func newTestSources() (*Sources, *core.Line, *core.Cursor) {
	line := new(core.Line)
	cur := core.NewCursor(line)
	h := NewSources(line, cur, new(ui.Hint), inputrc.NewDefaultConfig())
	Init(h)
	return h, line, cur
}

// C07/C01: (*Sources).Redo/post:ri — redo with nothing undone drives pos to -1; the next undo indexes items[len].
func TestVerifFindingRedoUnderflow(t *testing.T) {
	defer func() {
		if r := recover(); r != nil {
			t.Errorf("redo then undo panicked: %v", r)
		}
	}()
	h, line, _ := newTestSources()
	line.Set([]rune("abc")...)
	h.Save()
	h.Redo()
	h.Undo()
}

// C09/C01: (*memory).GetLine/nopanic:index — any index outside the stored lines panics.
func TestVerifFindingMemoryGetLine(t *testing.T) {
	for _, i := range []int{1, -1, 7} {
		func() {
			defer func() {
				if r := recover(); r != nil {
					t.Errorf("GetLine(%d) panicked: %v", i, r)
				}
			}()
			m := NewInMemoryHistory()
			m.Write("one")
			if _, err := m.GetLine(i); err == nil {
				t.Errorf("GetLine(%d) on a one-line history returned no error", i)
			}
		}()
	}
}

// C07: (*Sources).Undo/post:redo-can-restore — OPEN finding (demonstration; fails on the current tree).
func TestVerifFindingUndoRedoUnsaved(t *testing.T) {
	h, line, _ := newTestSources()
	h.Save() // initial state ""
	line.Set([]rune("abc")...) // typed, never saved (self-insert uses SkipSave)
	h.Undo()
	h.Redo()
	if got := string(*line); got != "abc" {
		t.Errorf("undo then redo: got %q, want %q", got, "abc")
	}
}

// C07: (*Sources).Save/post:initial-kept — OPEN finding (demonstration; fails on the current tree).
func TestVerifFindingSaveDropsInitial(t *testing.T) {
	h, line, _ := newTestSources()
	h.Save() // ""
	line.Set([]rune("abc")...)
	h.Save() // "abc"
	h.Undo() // back to "", pos == len(items)
	h.Save() // what the main loop does after the undo command (skipped, clears undoing)
	line.Set([]rune("x")...)
	h.Save() // new edit
	for i := 0; i < 5; i++ {
		h.Undo()
		h.Save()
	}
	if got := string(*line); got != "" {
		t.Errorf("undoing repeatedly ends at %q, the initial content \"\" is unreachable", got)
	}
}

// C08: (*Sources).Write/inv-step:L1 — the history-size test is inverted: with a limit set, nothing is
// recorded until the source already holds MORE entries than the limit (never, starting from empty).
func TestVerifFindingHistorySizeInverted(t *testing.T) {
	line := new(core.Line)
	cur := core.NewCursor(line)
	cfg := inputrc.NewDefaultConfig()
	cfg.Set("history-size", 2)
	h := NewSources(line, cur, new(ui.Hint), cfg)
	Init(h)
	for _, s := range []string{"one", "two"} {
		line.Set([]rune(s)...)
		h.Accept(false, false, nil)
	}
	if n := h.Current().Len(); n != 2 {
		t.Errorf("history-size 2: %d entries recorded after accepting 2 lines, want 2", n)
	}
}

// C08: (*Sources).Write/post:exactly-once — a duplicate in the first-visited source returns out of the
// loop and suppresses the write to every source visited later (map order: retried until seen).
func TestVerifFindingDuplicateStopsOtherSources(t *testing.T) {
	for try := 0; try < 64; try++ {
		line := new(core.Line)
		cur := core.NewCursor(line)
		h := NewSources(line, cur, new(ui.Hint), inputrc.NewDefaultConfig())
		a, b := NewInMemoryHistory(), NewInMemoryHistory()
		a.Write("same")
		h.Add("a", a)
		h.Add("b", b)
		Init(h)
		line.Set([]rune("same")...)
		h.Accept(false, false, nil)
		if b.Len() != 1 {
			t.Errorf("try %d: source b has %d entries, want 1 (the line is not a duplicate there)", try, b.Len())
			return
		}
	}
}

// C09: (*Sources).getLine/post:uses-typed-text — the search text for history-search-backward/forward is
// read from slot 0 of the per-line histories (the oldest history entry) instead of slot -1 (the buffer
// being typed), so the search ignores what the user typed.
func TestVerifFindingHistorySearchIgnoresTypedText(t *testing.T) {
	h, line, cur := newTestSources()
	for _, s := range []string{"one", "two", "three"} {
		h.Current().Write(s)
	}
	line.Set([]rune("o")...)
	cur.Set(1)
	h.Save()
	h.InsertMatch(nil, nil, true, false, false) // history-search-backward
	if got := string(*line); got != "one" {
		t.Errorf("history-search-backward with buffer %q: got %q, want %q", "o", got, "one")
	}
}

// C09 (fixed 1eaff32): history-search-backward with a non-ASCII character before the cursor: the search text was
// cut from the string form of the line at the rune cursor position, i.e. inside a UTF-8 sequence; the
// broken prefix matched an entry that does not start with the typed text.
func TestVerifFindingSearchPrefixBytes(t *testing.T) {
	h, line, cur := newTestSources()
	h.Current().Write("\u00e8xyz")
	line.Set([]rune("\u00e9a")...)
	cur.Set(1) // search text: the first character only
	h.Save()
	h.InsertMatch(nil, nil, true, false, false) // history-search-backward
	if got := string(*line); got != "\u00e9a" {
		t.Errorf("search text %q: buffer became %q, an entry that does not start with it", "\u00e9", got)
	}
}
