package history

// Demonstrations of defects found by failed obligations (run in-package via -overlay).

import (
	"testing"

	"github.com/reeflective/readline/inputrc"
	"github.com/reeflective/readline/internal/core"
	"github.com/reeflective/readline/internal/ui"
)

func newTestSources() (*Sources, *core.Line, *core.Cursor) {
	line := new(core.Line)
	cur := core.NewCursor(line)
	h := NewSources(line, cur, new(ui.Hint), inputrc.NewDefaultConfig())
	Init(h)
	return h, line, cur
}

// C07/C01: (*Sources).Redo/post:ri — redo with nothing undone drives pos to -1; the next undo indexes items[len].
func TestVerifFindingRedoUnderflow(t *testing.T) {
	defer func() {
		if r := recover(); r != nil {
			t.Errorf("redo then undo panicked: %v", r)
		}
	}()
	h, line, _ := newTestSources()
	line.Set([]rune("abc")...)
	h.Save()
	h.Redo()
	h.Undo()
}

// C09/C01: (*memory).GetLine/nopanic:index — any index outside the stored lines panics.
func TestVerifFindingMemoryGetLine(t *testing.T) {
	for _, i := range []int{1, -1, 7} {
		func() {
			defer func() {
				if r := recover(); r != nil {
					t.Errorf("GetLine(%d) panicked: %v", i, r)
				}
			}()
			m := NewInMemoryHistory()
			m.Write("one")
			if _, err := m.GetLine(i); err == nil {
				t.Errorf("GetLine(%d) on a one-line history returned no error", i)
			}
		}()
	}
}

// C07: (*Sources).Undo/post:redo-can-restore — OPEN finding (demonstration; fails on the current tree).
func TestVerifFindingUndoRedoUnsaved(t *testing.T) {
	h, line, _ := newTestSources()
	h.Save() // initial state ""
	line.Set([]rune("abc")...) // typed, never saved (self-insert uses SkipSave)
	h.Undo()
	h.Redo()
	if got := string(*line); got != "abc" {
		t.Errorf("undo then redo: got %q, want %q", got, "abc")
	}
}

// C07: (*Sources).Save/post:initial-kept — OPEN finding (demonstration; fails on the current tree).
func TestVerifFindingSaveDropsInitial(t *testing.T) {
	h, line, _ := newTestSources()
	h.Save() // ""
	line.Set([]rune("abc")...)
	h.Save() // "abc"
	h.Undo() // back to "", pos == len(items)
	h.Save() // what the main loop does after the undo command (skipped, clears undoing)
	line.Set([]rune("x")...)
	h.Save() // new edit
	for i := 0; i < 5; i++ {
		h.Undo()
		h.Save()
	}
	if got := string(*line); got != "" {
		t.Errorf("undoing repeatedly ends at %q, the initial content \"\" is unreachable", got)
	}
}
