package inputrc

// Demonstrations of defects found by failed obligations (run in-package via -overlay; see
// /verif/known_findings.json).  Each test fails on the pinned tree and passes after its fix.

import (
	"os"
	"strings"
	"testing"
)

// C12: (*Parser).readSymbols/pre@findStringEnd — "set " with nothing after it indexes seq[len(seq)].
func TestVerifFindingSetWithoutValue(t *testing.T) {
	for _, in := range []string{"set ", "set keymap", "set keymap ", "set\t"} {
		func() {
			defer func() {
				if r := recover(); r != nil {
					t.Errorf("Parse(%q) panicked: %v", in, r)
				}
			}()
			cfg := NewConfig()
			_ = Parse(strings.NewReader(in), cfg)
		}()
	}
}

// C13: (*Parser).do/post:if-push, else-flip — bindings inside an inactive outer $if leak.
func TestVerifFindingNestedIf(t *testing.T) {
	src := "$if mode=vi\n$if mode=emacs\n\"a\": self-insert\n$else\n\"b\": self-insert\n$endif\n$else\n$if mode=vi\n\"c\": self-insert\n$else\n\"d\": self-insert\n$endif\n$endif\n"
	cfg := NewConfig()
	if err := Parse(strings.NewReader(src), cfg, WithMode("emacs")); err != nil {
		t.Fatal(err)
	}
	got := cfg.Binds["emacs"]
	for _, k := range []string{"a", "b", "c"} {
		if _, ok := got[k]; ok {
			t.Errorf("binding %q from an inactive block took effect", k)
		}
	}
	if _, ok := got["d"]; !ok {
		t.Errorf("binding \"d\" from the active block is missing")
	}
}

type selfIncluder struct{ *Config }

func (selfIncluder) ReadFile(name string) ([]byte, error) {
	if name == "self" {
		return []byte("$include self\n"), nil
	}
	return nil, os.ErrNotExist
}

// C12: (*Parser).do/rec-dec — a file that includes itself recurses without bound.
// (Run only with a small stack limit or expect a fatal stack overflow on the pinned tree.)
func TestVerifFindingSelfInclude(t *testing.T) {
	if os.Getenv("VERIF_RUN_SELF_INCLUDE") == "" {
		t.Skip("set VERIF_RUN_SELF_INCLUDE=1: on the unfixed tree this overflows the stack and kills the test binary")
	}
	h := selfIncluder{NewConfig()}
	// must return (on the unfixed tree the recursion never ends and the stack overflows)
	p := New(WithHaltOnErr(true))
	if err := p.Parse(strings.NewReader("$include self\n"), h); err != nil {
		t.Logf("returned error value: %v", err)
	}
}

// C19: lemma:roundtrip1_all_latin1 — OPEN finding (demonstration; fails on the current tree):
// runes 0x80-0x9F and 0xFF do not survive Escape followed by Unescape.
func TestVerifFindingEscapeLatin1(t *testing.T) {
	bad := 0
	for c := rune(0); c <= 0xff; c++ {
		s := string(c)
		if got := Unescape(Escape(s)); got != s {
			bad++
			if bad <= 3 {
				t.Errorf("Unescape(Escape(%q)) = %q (escaped as %q)", s, got, Escape(s))
			}
		}
	}
	if bad > 0 {
		t.Errorf("%d of 256 single runes do not round-trip", bad)
	}
}

// C13 (fixed by f58bb7c): readSymbols treated the first character of any `set` value as a string delimiter:
// a value whose first character occurs again was cut after that occurrence, so `set keymap vi-move`
// selected the keymap "vi-mov" and the binds that follow were recorded there.
func TestVerifFindingSetValueCutAtRepeatedFirstChar(t *testing.T) {
	for _, name := range []string{"vi-move", "emacs-meta", "vi-command", "emacs"} {
		cfg := NewDefaultConfig()
		if err := ParseBytes([]byte("set keymap "+name+"\n\"\\C-x\\C-q\": end-of-line\n"), cfg); err != nil {
			t.Fatal(err)
		}
		if b, ok := cfg.Binds[name][Unescape(`\C-x\C-q`)]; !ok || b.Action != "end-of-line" {
			t.Errorf("set keymap %s: the bind that follows was not recorded in keymap %q", name, name)
		}
	}
	cfg := NewDefaultConfig()
	if err := ParseBytes([]byte("set history-size 1010\n"), cfg); err != nil {
		t.Fatal(err)
	}
	if got := cfg.GetInt("history-size"); got != 1010 {
		t.Errorf("set history-size 1010 stored %d", got)
	}
}

// C19 (known finding, lemma key1_all_bind): Ctrl-\ (0x1c) is written \C-\ and Meta-\ (0xdc) \M-\, both ending in
// a bare backslash; followed by the plain characters "M-x" / "C-x" the decoder reads \C-\M-x / \M-\C-x, the
// control-meta prefix, and the sequence does not come back.
func TestVerifFindingEscapeAmbiguousBackslashTail(t *testing.T) {
	for _, k := range []string{"\x1cM-a", "\u00dcC-a"} {
		if got := Unescape(Escape(k)); got != k {
			t.Errorf("Unescape(Escape(%q)) = %q (Escape gives %q)", k, got, Escape(k))
		}
	}
}

// C13 ("with the key sequence / value as written"): findEnd looked at the character *after* the first one of a
// symbol before anything else, so a symbol whose second character ends it - every one-character symbol - was
// read as empty: `set completion-query-items 0` assigned nothing.
func TestVerifFindingOneCharacterValue(t *testing.T) {
	cfg := NewDefaultConfig()
	if err := ParseBytes([]byte("set completion-query-items 7\n"), cfg); err != nil {
		t.Fatalf("parse: %v", err)
	}
	if got := cfg.GetInt("completion-query-items"); got != 7 {
		t.Errorf("set completion-query-items 7: variable is %d, want 7", got)
	}
}
