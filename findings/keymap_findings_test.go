package keymap

// Demonstrations of defects found by failed obligations (run in-package via -overlay).

import (
	"testing"

	"github.com/reeflective/readline/inputrc"
	"github.com/reeflective/readline/internal/core"
)

func newTestKeymap(binds map[string]string) (*Engine, *core.Keys, *[]string) {
	keys := new(core.Keys)
	m, cfg := NewEngine(keys, new(core.Iterations))
	ran := new([]string)
	tbl := map[string]inputrc.Bind{}
	cmds := map[string]func(){}
	for seq, name := range binds {
		name := name
		tbl[seq] = inputrc.Bind{Action: name}
		cmds[name] = func() { *ran = append(*ran, name) }
	}
	cfg.Binds["emacs"] = tbl
	m.Register(cmds)
	m.main = Emacs
	m.local = ""
	return m, keys, ran
}

func typeKeys(keys *core.Keys, s string) { core.MatchedKeys(keys, nil, []byte(s)...) }

// C03/C01: dispatchKeys/post:no-keys-no-command — called with an empty key stack, the dispatcher returns
// the bind of the PREVIOUS command, which the main loop then runs again.
func TestVerifFindingDispatchEmptyStackStale(t *testing.T) {
	m, keys, _ := newTestKeymap(map[string]string{"a": "cmd-a"})
	typeKeys(keys, "a")
	if bind, _, _ := MatchMain(m); bind.Action != "cmd-a" {
		t.Fatalf("setup: got %q", bind.Action)
	}
	bind, cmd, prefix := MatchMain(m) // nothing left to dispatch
	if bind.Action != "" || cmd != nil || prefix {
		t.Errorf("dispatch with no keys returned bind %q (command set: %v): the previous command would run again", bind.Action, cmd != nil)
	}
}

// C03: MatchMain/post:ruled-out-key-redispatched — with "a", "ab" and "c" bound, typing "ac" must run cmd-a
// when c rules "ab" out and then dispatch c; in the main keymap the c is swallowed.
func TestVerifFindingRuleOutKeySwallowed(t *testing.T) {
	m, keys, ran := newTestKeymap(map[string]string{"a": "cmd-a", "ab": "cmd-ab", "c": "cmd-c"})
	typeKeys(keys, "ac")
	for i := 0; i < 4; i++ {
		if _, empty := core.PeekKey(keys); empty {
			break
		}
		_, cmd, prefix := MatchMain(m)
		if !prefix && cmd != nil {
			cmd()
		}
	}
	if len(*ran) != 2 || (*ran)[0] != "cmd-a" || (*ran)[1] != "cmd-c" {
		t.Errorf("typing \"ac\" ran %v, want [cmd-a cmd-c]", *ran)
	}
}

// C03: the same with a longer gap: "a" and "abc" bound, typing "abx" must run cmd-a and then dispatch b and x.
func TestVerifFindingRuleOutKeysAfterShorterBind(t *testing.T) {
	m, keys, ran := newTestKeymap(map[string]string{"a": "cmd-a", "abc": "cmd-abc", "b": "cmd-b", "x": "cmd-x"})
	typeKeys(keys, "abx")
	for i := 0; i < 6; i++ {
		if _, empty := core.PeekKey(keys); empty {
			break
		}
		_, cmd, prefix := MatchMain(m)
		if !prefix && cmd != nil {
			cmd()
		}
	}
	if len(*ran) != 3 || (*ran)[0] != "cmd-a" || (*ran)[1] != "cmd-b" || (*ran)[2] != "cmd-x" {
		t.Errorf("typing \"abx\" ran %v, want [cmd-a cmd-b cmd-x]", *ran)
	}
}
