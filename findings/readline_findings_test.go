package readline

// Demonstrations of defects found by failed obligations (run in-package via -overlay).

import (
	"os"
	"strings"
	"path/filepath"
	"testing"
)

func newTestShell(line string, pos int) *Shell {
	rl := NewShell()
	rl.init()
	rl.line.Set([]rune(line)...)
	rl.cursor.Set(pos)
	return rl
}

// C16: (*Shell).killRegion/post:P1P2 — with point after mark the cursor is not moved to the start of the
// removed region, so an immediate yank lands in the wrong place.
func TestVerifFindingKillRegionCursor(t *testing.T) {
	rl := newTestShell("aaa ", 0)
	rl.selection.Mark(0) // set-mark at 0
	rl.cursor.Set(2)     // point after mark
	rl.killRegion()
	rl.yank()
	if got := string(*rl.line); got != "aaa " {
		t.Errorf("kill-region then yank: got %q, want %q", got, "aaa ")
	}
}

// C03: (*Shell).run/post:macro-as-typed — OPEN finding (demonstration; fails on the current tree): the keys of a
// macro binding are queued BEHIND keys that were typed ahead in the same read, instead of taking their place.
func TestVerifFindingMacroBehindTypeAhead(t *testing.T) {
	s := newSession(false)
	s.rl.Config.Bind("emacs", "Q", "abc", true)
	s.keys("Qd") // one chunk: the macro key followed by type-ahead
	if got := s.buffer(); got != "abcd" {
		t.Errorf("macro Q=abc, typed \"Qd\" in one read: buffer %q, want %q", got, "abcd")
	}
}

// C18: (*macro.Engine).RunMacro/post:feeds-unescaped — running a macro by name only replaces \e and feeds
// every other escape (\C-a, \t, \\ ...) as literal characters.
func TestVerifFindingRunMacroNotUnescaped(t *testing.T) {
	typed := newSession(true)
	typed.keys("\x1b", "iab", "\x01", "X", "\x1b") // command mode, insert ab, C-a (beginning of line), insert X, back to command mode
	want := typed.buffer()

	rec := newSession(true)
	rec.keys("\x1b", "q", "a", "iab", "\x01", "X", "\x1b", "q") // record the same keys into register a
	rec.rl.line.Set()
	rec.rl.cursor.Set(0)
	rec.keys("@", "a") // replay on an empty buffer
	if got := rec.buffer(); got != want {
		t.Errorf("replaying the macro gives %q, typing its keys gives %q", got, want)
	}
}

// C02 probe: what does typing non-ASCII text return?
func TestVerifProbeTypeUnicode(t *testing.T) {
	for _, in := range []string{"é", "héllo", "日本", "a😀b", "x y"} {
		s := newSession(false)
		s.rl.Config.Set("convert-meta", false)
		s.rl.Config.Set("input-meta", true)
		s.rl.Config.Set("output-meta", true)
		s.keys(in)
		if got := s.buffer(); got != in {
			t.Errorf("typed %q, buffer %q", in, got)
		}
	}
}

// C01: (*core.Keys).ReadKey/nopanic:index — input ends (or fails) while a command waits for its argument key.
func TestVerifFindingReadKeyOnEOF(t *testing.T) {
	defer func() {
		if r := recover(); r != nil {
			t.Errorf("vi f<char> with the input ending after f panicked: %v", r)
		}
	}()
	s := newSession(true)
	s.keys("abxab", "\x1b", "0", "f") // f then end of input
}

// C05: (*core.Keys).ReadKey/post:uses-buffered-keys-first — OPEN finding (demonstration; fails on the current
// tree): the same bytes cut into reads differently give different results, because commands that read an
// argument key read the NEXT chunk from the terminal and ignore keys already buffered.
func TestVerifFindingReadKeyIgnoresBufferedKeys(t *testing.T) {
	run := func(chunks ...string) string {
		s := newSession(true)
		s.keys(append([]string{"abxab", "\x1b", "0"}, chunks...)...)
		return s.buffer()
	}
	split, joined := run("d", "f", "x"), run("dfx")
	if split != joined {
		t.Errorf("\"dfx\" typed as three reads gives %q, pasted as one read gives %q", split, joined)
	}
}

// ---------------------------------------------------------------------------------------------------
// C01: panics reachable from the keyboard, found by the command sweep (nopanic obligations that did not
// discharge), each repaired by a fix: commit.  The tests drive the real dispatcher and commands.

func sessionPanics(vi bool, keys ...string) (panicked interface{}) {
	defer func() { panicked = recover() }()
	s := newSession(vi)
	s.keys(keys...)
	return nil
}

func TestVerifFindingC01KeyboardPanics(t *testing.T) {
	cases := []struct {
		name string
		vi   bool
		keys []string
	}{
		{"vi-forward-char with a count past the end (9l)", true, []string{"ab", "\x1b", "0", "9l"}},
		{"vi-forward-char 3l on 'ab cd' at 2", true, []string{"ab cd", "\x1b", "0", "l", "l", "3l"}},
		{"vi-backward-char with a count past the start (3h)", true, []string{"ab", "\x1b", "3h"}},
		{"vi-yank-whole-line on an empty buffer (Y)", true, []string{"\x1b", "Y"}},
		{"vi-yank-to doubled on an empty buffer (yy)", true, []string{"\x1b", "yy"}},
		{"transpose-words on an empty buffer (M-t)", false, []string{"\x1bt"}},
		{"vi-match on an unmatched closer (%)", true, []string{"aaa)", "\x1b", "0", "%"}},
	}
	for _, c := range cases {
		if p := sessionPanics(c.vi, c.keys...); p != nil {
			t.Errorf("%s: keys %q panic: %v", c.name, c.keys, p)
		}
	}
}

// C01 (fixed): yank-nth-arg with a negative numeric argument indexed words[argNth-1] below zero.
func TestVerifFindingC01YankNthArgNegative(t *testing.T) {
	defer func() {
		if r := recover(); r != nil {
			t.Errorf("yank-nth-arg with argument -1 panics: %v", r)
		}
	}()
	s := newSession(false)
	s.keys("echo a b", "\r")
	s.rl.init()
	s.rl.Iterations.Add("-")
	s.rl.yankNthArg()
}

// C01 (fixed): commands that sliced the buffer with positions taken from a selection without checking them.
// Direct calls on small buffers (states reachable by typing the buffer and moving the cursor).
func TestVerifFindingC01SelectionSlices(t *testing.T) {
	cases := []struct {
		cmd, buf string
		pos      int
	}{
		{"shell-kill-word", "", 0}, {"shell-kill-word", "a ", 2},
		{"shell-backward-kill-word", "  ", 1},
		{"shell-transpose-words", "", 0},
		{"transpose-words", "aaa\"", 3},
		{"keyword-increase", "", 0}, {"keyword-decrease", "", 0},
	}
	for _, c := range cases {
		func() {
			defer func() {
				if r := recover(); r != nil {
					t.Errorf("%s on %q at %d panics: %v", c.cmd, c.buf, c.pos, r)
				}
			}()
			rl := NewShell()
			rl.init()
			rl.line.Set([]rune(c.buf)...)
			rl.cursor.Set(c.pos)
			rl.Keymap.Commands()[c.cmd]()
		}()
	}
}

// C01 (fixed): redraw-current-line was registered as the method value rl.Display.Refresh before the display
// engine existed: a nil receiver was captured and the command always panicked.
func TestVerifFindingC01RedrawCurrentLine(t *testing.T) {
	defer func() {
		if r := recover(); r != nil {
			t.Errorf("redraw-current-line panics: %v", r)
		}
	}()
	rl := NewShell()
	rl.init()
	rl.Keymap.Commands()["redraw-current-line"]()
}

// C01 (fixed d046b1c): an editor that saves an empty file makes EditBuffer return (empty, nil); both edit
// commands then called err.Error() on the nil error.
func TestVerifFindingC01EditorEmptyBuffer(t *testing.T) {
	dir := t.TempDir()
	script := "#!/bin/sh\n: > \"$1\"\n"
	for _, n := range []string{"emacs", "vi"} {
		if err := os.WriteFile(filepath.Join(dir, n), []byte(script), 0o755); err != nil {
			t.Fatal(err)
		}
	}
	t.Setenv("PATH", dir+":"+os.Getenv("PATH"))
	t.Setenv("VISUAL", "x")
	t.Setenv("EDITOR", "x")
	for name, run := range map[string]func(rl *Shell){
		"edit-and-execute-command": func(rl *Shell) { rl.editAndExecuteCommand() },
		"edit-command-line":        func(rl *Shell) { rl.editCommandLine() },
	} {
		rl := NewShell()
		rl.init()
		rl.line.Set([]rune("echo hello")...)
		func() {
			defer func() {
				if r := recover(); r != nil {
					t.Errorf("%s panicked when the editor saved an empty file: %v", name, r)
				}
			}()
			run(rl)
		}()
	}
}

// C16 (fixed f909971): kill-whole-line, yank into the now empty buffer (Line.Insert did *l = chars: the line
// was the kill buffer's array), then type in the middle of the line: the kill ring was rewritten in place.
func TestVerifFindingC16YankAliasesKillRing(t *testing.T) {
	rl := NewShell()
	rl.init()
	rl.line.Set([]rune("hello world")...)
	rl.cursor.Set(3)
	rl.killWholeLine()
	rl.yank()
	if string(*rl.line) != "hello world" {
		t.Fatalf("line after yank: %q", string(*rl.line))
	}
	rl.cursor.Set(2)
	rl.line.Insert(2, 'X') // what self-insert does
	if got := string(rl.Buffers.Active()); got != "hello world" {
		t.Errorf("kill buffer changed by typing into the yanked line: %q, want %q", got, "hello world")
	}
	rl.line.Set()
	rl.cursor.Set(0)
	rl.yank()
	if got := string(*rl.line); got != "hello world" {
		t.Errorf("second yank gives %q, want %q", got, "hello world")
	}
}

// C16 (vi delete-character + put-before): a count larger than the characters left on the line. `5x` on "abc"
// with the cursor on 'b' must remove "bc" and store "bc". Before the fix the loop ran five times: at the end of
// the line Cursor.Char() gives NUL and Line.CutRune removes the rune *before* the cursor, so the buffer lost
// "abc" and the register held "bc\x00\x00\x00" - put-before did not give back what was taken.
func TestVerifFindingC16ViDeleteCharCount(t *testing.T) {
	rl := NewShell()
	rl.init()
	rl.line.Set([]rune("abc")...)
	rl.cursor.Set(1)
	rl.Iterations.Add("5")
	rl.viDeleteChar()
	if got := string(*rl.line); got != "a" {
		t.Errorf("line after 5x on \"abc\" at 1: %q, want %q", got, "a")
	}
	if got := string(rl.Buffers.Active()); got != "bc" {
		t.Errorf("register after 5x: %q, want %q", got, "bc")
	}
}

// C16 (vi backward delete, `X`, with a count): `2X` at the end of "abc" removes "bc"; the register must hold
// "bc" so that put gives back what was taken. Before the fix the runes were collected while walking backwards
// and stored in that order: the register held "cb".
func TestVerifFindingC16ViRuboutCountReversed(t *testing.T) {
	rl := NewShell()
	rl.init()
	rl.Keymap.SetMain("vi-command")
	rl.line.Set([]rune("abc")...)
	rl.cursor.Set(3)
	rl.Iterations.Add("2")
	rl.viRubout()
	if got := string(*rl.line); got != "a" {
		t.Errorf("line after 2X at the end of \"abc\": %q, want %q", got, "a")
	}
	if got := string(rl.Buffers.Active()); got != "bc" {
		t.Errorf("register after 2X: %q, want %q", got, "bc")
	}
}

// C09 ("moving back down past the newest entry restores the text the user was typing"): a multi-step move
// down that overshoots the newest entry (end-of-history, or down-line-or-history with a count) left the
// history entry in the buffer while the position said "line being typed": the typed text was lost.
func TestVerifFindingC09WalkOvershootLosesTypedText(t *testing.T) {
	rl := NewShell()
	rl.init()
	for _, e := range []string{"e1", "e2", "e3", "e4", "e5"} {
		rl.History.Current().Write(e)
	}
	rl.line.Set([]rune("typing")...)
	rl.cursor.Set(6)
	rl.History.Walk(1)
	rl.History.Walk(1)
	if got := string(*rl.line); got != "e4" {
		t.Fatalf("two steps up: %q, want e4", got)
	}
	rl.History.Walk(-4) // what end-of-history does: Walk(-Len+1)
	if got := string(*rl.line); got != "typing" {
		t.Errorf("back down past the newest entry: buffer %q, want the text being typed %q", got, "typing")
	}
}

// C14 ("the text after the cursor is unchanged"): completing with the cursor at the very start of a
// non-empty line. There is no word before the cursor, so the candidate must simply be inserted there.
// Before the fix setPrefix clamped the position before the cursor to 0 and then took the character *under*
// the cursor as the word being completed: "abc def" at 0 with the candidate "apple" became "applebc def".
func TestVerifFindingC14PrefixAtLineStart(t *testing.T) {
	rl := NewShell()
	rl.Completer = func(line []rune, cursor int) Completions {
		return CompleteValues("apple", "avocado")
	}
	rl.init()
	rl.line.Set([]rune("abc def")...)
	rl.cursor.Set(0)
	rl.menuComplete()
	line, _ := rl.completer.Line()
	got := string(*line)
	if got != "appleabc def" && got != "avocadoabc def" {
		t.Errorf("completion at the start of \"abc def\": %q, want a candidate inserted before the unchanged text", got)
	}
}

// Regression introduced by fix 3ddca77 (dispatchKeys on an empty key stack returns no bind) and repaired since:
// abort decides whether to end Readline with ErrInterrupt by asking Keymap.InputIsTerminator(), which
// re-dispatches the (by then empty) key stack and used to get the *current* command's bind back (abort itself).
// With the empty-stack fix alone that answer became "no", so C-g / C-c never interrupted the call any more.
func TestVerifFindingAbortStillInterrupts(t *testing.T) {
	s := newSession(false)
	devnull, _ := os.OpenFile(os.DevNull, os.O_WRONLY, 0)
	oldOut := os.Stdout
	os.Stdout = devnull // abort prints through the display engine
	s.keys("abc\x07")  // C-g is bound to abort in the emacs keymap
	os.Stdout = oldOut
	if !s.accepted || s.err == nil {
		t.Errorf("C-g on a plain line: accepted=%v err=%v, want the call to end with ErrInterrupt", s.accepted, s.err)
	}
}

// C16 / C17 with a numbered register selected ("3yw, "3p): Buffers.WriteTo tested `err != nil` where it meant
// `err == nil`, so a kill or yank into one of the registers "1 - "9 was written nowhere.
func TestVerifFindingNumberedRegisterWrite(t *testing.T) {
	rl := NewShell()
	rl.init()
	rl.Buffers.WriteTo('3', []rune("hello")...)
	rl.Buffers.SetActive('3')
	if got := string(rl.Buffers.Active()); got != "hello" {
		t.Errorf("register \"3 after WriteTo('3', hello): %q, want %q", got, "hello")
	}
}

// C19 (dump-variables in inputrc format must parse back to the same configuration): boolean variables were
// printed with %v ("true" / "false"), but the parser only reads "on" / "1" as true: every variable that is on
// came back off.
func TestVerifFindingC19DumpVariablesBooleans(t *testing.T) {
	rl := NewShell()
	rl.init()
	rl.Config.Set("blink-matching-paren", true)
	rl.Iterations.Add("1") // numeric argument: inputrc format
	r, w, _ := os.Pipe()
	oldOut := os.Stdout
	os.Stdout = w
	func() {
		defer func() { recover() }() // the redisplay after the dump has no terminal here
		rl.dumpVariables()
	}()
	w.Close()
	os.Stdout = oldOut
	buf := make([]byte, 1<<16)
	n, _ := r.Read(buf)
	out := string(buf[:n])
	if !strings.Contains(out, "set blink-matching-paren on") {
		idx := strings.Index(out, "set blink-matching-paren")
		line := ""
		if idx >= 0 {
			line = strings.SplitN(out[idx:], "\n", 2)[0]
		}
		t.Errorf("dump-variables prints %q, which the parser reads back as off; want \"set blink-matching-paren on\"", line)
	}
}

// C06 ("on a character in Vi command mode unless the buffer or the current line is empty"): a line kept by
// accept-and-hold (or brought back by the infer / operate-and-get-next commands) is put in the buffer by
// history.Init with the cursor after its last character; the main keymap is not reset between calls, so in Vi
// command mode the next call waited for input with the cursor past the end of a non-empty line.
func TestVerifFindingC06HeldLineCursorInViCommandMode(t *testing.T) {
	rl := NewShell()
	rl.init()
	rl.Keymap.SetMain("vi-command")
	rl.line.Set([]rune("hello")...)
	rl.cursor.Set(2)
	rl.History.Accept(true, false, nil) // what accept-and-hold does
	rl.init()                           // the next Readline call starts
	if got := string(*rl.line); got != "hello" {
		t.Fatalf("held line: %q", got)
	}
	if pos := rl.cursor.Pos(); pos != 4 {
		t.Errorf("vi command mode, held line \"hello\": cursor at %d, want 4 (on the last character)", pos)
	}
}
