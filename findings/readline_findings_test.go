package readline

// Demonstrations of defects found by failed obligations (run in-package via -overlay).

import "testing"

func newTestShell(line string, pos int) *Shell {
	rl := NewShell()
	rl.init()
	rl.line.Set([]rune(line)...)
	rl.cursor.Set(pos)
	return rl
}

// C16: (*Shell).killRegion/post:P1P2 — with point after mark the cursor is not moved to the start of the
// removed region, so an immediate yank lands in the wrong place.
func TestVerifFindingKillRegionCursor(t *testing.T) {
	rl := newTestShell("aaa ", 0)
	rl.selection.Mark(0) // set-mark at 0
	rl.cursor.Set(2)     // point after mark
	rl.killRegion()
	rl.yank()
	if got := string(*rl.line); got != "aaa " {
		t.Errorf("kill-region then yank: got %q, want %q", got, "aaa ")
	}
}

// C03: (*Shell).run/post:macro-as-typed — OPEN finding (demonstration; fails on the current tree): the keys of a
// macro binding are queued BEHIND keys that were typed ahead in the same read, instead of taking their place.
func TestVerifFindingMacroBehindTypeAhead(t *testing.T) {
	s := newSession(false)
	s.rl.Config.Bind("emacs", "Q", "abc", true)
	s.keys("Qd") // one chunk: the macro key followed by type-ahead
	if got := s.buffer(); got != "abcd" {
		t.Errorf("macro Q=abc, typed \"Qd\" in one read: buffer %q, want %q", got, "abcd")
	}
}
